"""C04 - the prepare stage conserves the policy set (observed at the `prepared` tap)."""
import os
import re
import shutil

from . import matrix, model, scan
from .common import REPO, HarnessError, digest


def read_bytes(p):
    with open(p, "rb") as f:
        return f.read()


def strip_header_flags(text):
    """(text with flags=(...) removed from header lines and header spacing normalised, flags of first header)."""
    out = []
    first = None
    for line in text.split("\n"):
        code, comment = scan.strip_comment(line)
        if code.rstrip().endswith("{") and scan.parse_header(code) is not None:
            h = scan.parse_header(code)
            if first is None:
                first = h.flags
            line = "%s%s {" % (line[:len(line) - len(line.lstrip())], h.rest())
        out.append(line)
    return "\n".join(out), first


def compare(ctx, cfg, exp, snap, history, agg):
    """Compare the prepared snapshot with the model's expectation."""
    def viol(kind, rel, what):
        key = "C04/%s/%s" % (kind, rel)
        agg.setdefault(key, []).append(("%s[%s]" % (cfg.id, history), what))

    for (rel, s1, s2) in exp.clashes:
        viol("name-clash", rel, "two source files collapse onto %s: %s and %s" % (rel, s1, s2))
    act = model.listing(os.path.join(snap, "apparmor.d")) if os.path.isdir(os.path.join(snap, "apparmor.d")) else {}
    for rel in sorted(set(act) - set(exp.aad)):
        ctx.case(None)
        viol("leak", rel, "unexpected %s in the output policy directory" % rel)
    for rel, (t, v) in sorted(exp.aad.items()):
        nt = None
        if t == "L" or rel in exp.flags or rel in exp.edits or rel.endswith("." + model.PKG) or history != "clean":
            nt = digest(rel, cfg.id, history)
        ctx.case(nt)
        if rel not in act:
            viol("loss", rel, "%s missing from the output policy directory" % rel)
            continue
        a = act[rel]
        if t == "L":
            if a != "L:" + v:
                viol("link", rel, "%s should be a symlink to %s, is %s" % (rel, v, a))
            continue
        if a != "F":
            viol("type", rel, "%s should be a regular file, is %s" % (rel, a))
            continue
        got = read_bytes(os.path.join(snap, "apparmor.d", rel))
        want = read_bytes(v)
        if rel in exp.edits:
            want = exp.edits[rel](want.decode("utf-8", "surrogateescape")).encode("utf-8", "surrogateescape")
        if got == want:
            if rel in exp.flags:
                # a flags manifest names it: the header must carry the manifest flags
                _, f1 = strip_header_flags(got.decode("utf-8", "surrogateescape"))
                if f1 is not None and sorted(f1) != sorted(exp.flags[rel]):
                    # content equals the source, which is what this property asks; that the manifest was
                    # not applied is judged by C05 (flags), only counted here
                    ctx.extra.setdefault("manifest_named_but_unchanged", set()).add(rel)
            continue
        if rel in exp.flags:
            g, f1 = strip_header_flags(got.decode("utf-8", "surrogateescape"))
            w, _ = strip_header_flags(want.decode("utf-8", "surrogateescape"))
            if g != w:
                viol("content", rel, "%s differs from its source beyond header flags" % rel)
            elif f1 is None or sorted(f1) != sorted(exp.flags[rel]):
                viol("flags-rewritten-wrongly", rel, "%s: header flags were rewritten to %s, the manifest says %s" % (rel, f1, exp.flags[rel]))
            continue
        viol("content", rel, "%s differs from its source (%s)" % (rel, os.path.relpath(v, REPO) if v.startswith(REPO) else v))
    # overwrite clause
    for n in exp.overwritten:
        ctx.case(digest("ow", n, cfg.id))
        if act.get("disable/" + n) != "L:../" + n:
            viol("overwrite-link", n, "disable/%s -> ../%s missing (is %s)" % (n, n, act.get("disable/" + n)))
        if n in act:
            viol("overwrite-rename", n, "%s is on the overwrite list but ships under the upstream name" % n)
    # drop-ins and share
    for sub, expd in (("systemd", exp.systemd), ("share", exp.share)):
        a = model.listing(os.path.join(snap, sub)) if os.path.isdir(os.path.join(snap, sub)) else {}
        for rel in sorted(set(a) - set(expd)):
            ctx.case(None)
            viol("leak", sub + "/" + rel, "unexpected %s/%s" % (sub, rel))
        for rel, srcp in sorted(expd.items()):
            ctx.case(digest(sub, rel, cfg.id, history) if history != "clean" else None)
            if rel not in a:
                viol("loss", sub + "/" + rel, "%s/%s missing" % (sub, rel))
            elif a[rel] == "F" and read_bytes(os.path.join(snap, sub, rel)) != read_bytes(srcp):
                viol("content", sub + "/" + rel, "%s/%s differs from its source" % (sub, rel))


def make_junk(ctx, other_build):
    """A .build left by another configuration, seeded with junk."""
    d = os.path.join(ctx.scratch, "junk-%d" % ctx.rng.randrange(1 << 30))
    shutil.copytree(other_build, d, symlinks=True)
    aad = os.path.join(d, "apparmor.d")
    os.makedirs(os.path.join(aad, "disable"), exist_ok=True)
    with open(os.path.join(aad, "verif-stale-profile"), "w") as f:
        f.write("profile verif-stale-profile /usr/bin/stale {\n}\n")
    try:
        os.symlink("../verif-stale", os.path.join(aad, "disable", "verif-stale"))
    except FileExistsError:
        pass
    os.makedirs(os.path.join(d, "systemd", "system", "verif-stale.service.d"), exist_ok=True)
    with open(os.path.join(d, "systemd", "system", "verif-stale.service.d", "apparmor.conf"), "w") as f:
        f.write("[Service]\nAppArmorProfile=verif-stale\n")
    # a directory where a file is expected
    p = os.path.join(aad, "abstractions", "base-strict")
    if os.path.isfile(p):
        os.remove(p)
        os.makedirs(os.path.join(p, "x"))
    os.makedirs(os.path.join(d, "share", "verif-stale-dir"), exist_ok=True)
    return d


def run(ctx):
    ctx.build_bins(worker=False)
    allp = matrix.prepare_cfgs()
    if ctx.tier == "thorough":
        cfgs = allp
        ctx.exhaustive = True
    else:
        # one per (dist, full) and abi/version pairs spread; plus 2 from the seed
        cfgs = []
        combos = [("3", "3.0"), ("4", "4.0"), ("4", "4.1"), ("3", "4.1"), ("4", "3.0"), ("3", "4.0")]
        k = ctx.rng.randrange(len(combos))
        for d in matrix.DISTS:
            for f in matrix.FULLS:
                a, v = combos[k % len(combos)]
                k += 1
                cfgs.append(matrix.Cfg(d, a, v, "none", f))
        cfgs += ctx.rng.sample([c for c in allp if c not in cfgs], 2)
    ctx.rule = ("each expected or observed path of the output policy directory / drop-in directory at the `prepared` tap of a "
                "real prebuild run is one case per (configuration, build-directory history in {clean, left by another "
                "configuration + junk}); expectation from an independent manifest model; non-trivial = symlink, "
                "manifest-flagged, edited or renamed entries, overwrite-list entries, and every entry of a run started on a dirty build directory")
    agg = {}
    builds, bad = matrix.build_many(ctx, cfgs, tap=True)
    for b in bad:
        ctx.violation("C04/build-failed/" + b.cfg.id, "prebuild failed: " + b.log[-300:], {"cfg": b.cfg.id})
    for b in builds:
        if b.rc != 0:
            continue
        exp = model.expected(REPO, b.cfg.dist, b.cfg.abi, b.cfg.ver, b.cfg.full == "full")
        compare(ctx, b.cfg, exp, os.path.join(b.tap, "prepared"), "clean", agg)
    # histories: rebuild with a dirty build directory left by a different configuration
    good = [b for b in builds if b.rc == 0]
    nh = len(good) if ctx.tier == "thorough" else min(6, len(good))
    targets = ctx.rng.sample(good, nh)

    def rebuild(b):
        others = [o for o in good if o.cfg.dist != b.cfg.dist and o.cfg.full != b.cfg.full] or good
        o = others[digest_int(b.cfg.id, ctx.seed) % len(others)]
        junk = make_junk(ctx, o.root)
        nb = matrix.run_build(ctx, b.cfg, tag="dirty", tap=True, prior=junk)
        shutil.rmtree(junk, ignore_errors=True)
        return nb, o.cfg.id

    from .common import pmap
    for nb, oid in pmap(rebuild, targets):
        if nb.rc != 0:
            ctx.violation("C04/build-failed-on-dirty-dir/" + nb.cfg.id,
                          "prebuild failed on a build dir left by %s + junk: %s" % (oid, nb.log[-300:]), {"cfg": nb.cfg.id, "prior": oid})
            continue
        exp = model.expected(REPO, nb.cfg.dist, nb.cfg.abi, nb.cfg.ver, nb.cfg.full == "full")
        compare(ctx, nb.cfg, exp, os.path.join(nb.tap, "prepared"), "after " + oid + "+junk", agg)
        shutil.rmtree(nb.root, ignore_errors=True)
    # manifests rewritten in an equivalent form (no final newline, CRLF, more comment and blank lines): same policy set
    vt = ctx.rng.sample(good, min(len(good), 2 if ctx.tier == "quick" else 10))

    def variant_build(b):
        notes = []

        def mut(src):
            vr = __import__("random").Random("%s/%s" % (ctx.seed, b.cfg.id))
            d = os.path.join(src, "dists")
            files = [os.path.join(d, "overwrite")]
            for sub, ext in (("ignore", ".ignore"), ("flags", ".flags")):
                for nm in ("main", b.cfg.dist):
                    files.append(os.path.join(d, sub, nm + ext))
            for fp in files:
                if not os.path.isfile(fp):
                    continue
                txt = open(fp).read()
                how = vr.choice(["no-final-newline", "crlf", "comments-and-blanks", "blank-lines-at-end", "crlf-no-final-newline"])
                lines = txt.split("\n")
                if lines and lines[-1] == "":
                    lines = lines[:-1]
                if how == "comments-and-blanks":
                    k = vr.randrange(len(lines) + 1)
                    lines[k:k] = ["", "# a note", "#another", ""]
                    out = "\n".join(lines) + "\n"
                elif how == "no-final-newline":
                    out = "\n".join(lines)
                elif how == "crlf":
                    out = "\r\n".join(lines) + "\r\n"
                elif how == "crlf-no-final-newline":
                    out = "\r\n".join(lines)
                else:
                    out = "\n".join(lines) + "\n\n\n"
                open(fp, "w").write(out)
                notes.append("%s:%s" % (os.path.relpath(fp, d), how))

        nb = matrix.run_build(ctx, b.cfg, tag="manifest-variant", tap=True, src_mutator=mut)
        return b, nb, notes

    for b, nb, notes in pmap(variant_build, vt):
        if nb.rc != 0:
            ctx.violation("C04/build-failed-on-equivalent-manifests/" + nb.cfg.id, "prebuild failed with manifests rewritten as %s: %s" % (notes, nb.log[-300:]),
                          {"cfg": nb.cfg.id, "variants": notes})
            continue
        ra = model.listing(os.path.join(b.tap, "prepared", "apparmor.d"))
        rb2 = model.listing(os.path.join(nb.tap, "prepared", "apparmor.d"))
        for rel in sorted(set(ra) | set(rb2)):
            ctx.case(digest(b.cfg.id, "manifest-variant", rel))
            same = ra.get(rel) == rb2.get(rel)
            if same and ra.get(rel) == "F":
                same = read_bytes(os.path.join(b.tap, "prepared", "apparmor.d", rel)) == read_bytes(os.path.join(nb.tap, "prepared", "apparmor.d", rel))
            if not same:
                kind = "loss" if rel not in rb2 else ("leak" if rel not in ra else "content")
                agg.setdefault("C04/manifest-format/%s/%s" % (kind, rel), []).append(
                    ("%s[%s]" % (b.cfg.id, ",".join(notes)), "%s: %s differs (%s) when the manifests are written in an equivalent form: %s" % (b.cfg.id, rel, kind, notes)))
        shutil.rmtree(nb.root, ignore_errors=True)
    ctx.extra["manifest_variant_builds"] = len(vt)
    ctx.extra["manifest_named_but_unchanged"] = sorted(ctx.extra.get("manifest_named_but_unchanged", ()))
    ctx.require(ctx.evaluations >= 1000 * len(cfgs), "only %d path comparisons for %d configurations" % (ctx.evaluations, len(cfgs)))
    ctx.extra["configurations"] = len(cfgs)
    ctx.extra["dirty_history_runs"] = len(targets)
    # self-test stratum: a constructed base-name clash must be seen (monitor not blind)
    selftest(ctx)
    for b in builds:
        shutil.rmtree(b.root, ignore_errors=True)
    for key, lst in sorted(agg.items()):
        ctx.violation(key, "%s  [%d run(s), e.g. %s]" % (lst[0][1], len(lst), lst[0][0]),
                      {"runs": [r for r, _ in lst][:40]})
    ctx.samples = [{"cfg": c.id} for c in cfgs[:3]] + [{"dirty": t.cfg.id} for t in targets[:2]]


def digest_int(*a):
    return int(digest(*[str(x) for x in a])[:8], 16)


def selftest(ctx):
    cfg = matrix.Cfg("arch", "4", "4.0", "none", "normal")

    def mut(src):
        d = os.path.join(src, "apparmor.d", "groups", "zz-verif")
        os.makedirs(d)
        with open(os.path.join(d, "aa-status"), "w") as f:
            f.write("# verif clash\nprofile aa-status /usr/bin/verif-clash {\n}\n")

    b = matrix.run_build(ctx, cfg, tag="selftest", tap=True, src_mutator=mut, keep_src=True)
    exp = model.expected(b.src, cfg.dist, cfg.abi, cfg.ver, False)
    agg = {}
    sub = SubCtx()
    compare(sub, cfg, exp, os.path.join(b.tap, "prepared"), "selftest", agg)
    shutil.rmtree(b.src, ignore_errors=True)
    shutil.rmtree(b.root, ignore_errors=True)
    if not any(k.startswith("C04/name-clash/aa-status") for k in agg):
        raise HarnessError("C04 self-test: constructed name clash was not seen by the monitor (%s)" % sorted(agg)[:5])
    ctx.extra["selftest_clash_seen"] = True


class SubCtx:
    def __init__(self):
        self.extra = {}

    def case(self, *a, **k):
        pass
