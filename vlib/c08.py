"""C08 - everything a built policy refers to exists in that same build."""
import os
import re
import shutil

from . import matrix, model, scan
from .common import REPO, digest, pmap, pmap_proc

UPSTREAM = "/etc/apparmor.d"
RE_GLOB = re.compile(r"[*?\[\]{}]")
_scan_cache = {}


def scan_file(p):
    try:
        st = os.stat(p)
    except OSError:
        return None
    key = (p, st.st_mtime_ns, st.st_size)
    if key not in _scan_cache:
        _scan_cache[key] = scan.scan(matrix.read(p))
    return _scan_cache[key]


def upstream_defs():
    defs = set()
    for n in os.listdir(UPSTREAM):
        p = os.path.join(UPSTREAM, n)
        if os.path.isfile(p):
            sc = scan_file(p)
            for b in sc.blocks:
                defs.add(b.qname)
    return defs


def shipped_variables(aad):
    """Names of variables defined by the tunables of a build (+ upstream tunables)."""
    names = set()
    for base in (os.path.join(aad, "tunables"), os.path.join(UPSTREAM, "tunables")):
        for dp, dns, fns in os.walk(base):
            for fn in fns:
                try:
                    t = matrix.read(os.path.join(dp, fn))
                except OSError:
                    continue
                for m in re.finditer(r"^\s*@\{([A-Za-z0-9_]+)\}\s*\+?=", t, re.M):
                    names.add(m.group(1))
    return names


def collect(aad):
    """definitions (qualified names) and references of one build."""
    defs = set()
    refs = []   # (file, current block, kind, mode, target)
    files = matrix.top_profiles(aad)

    def add_refs(lst, fname, st, cur):
        f = st.fields()
        if f.get("kind") == "file" and f.get("exec") and "target" in f:
            lst.append((fname, cur if cur is not None else st.block, "exec", f["exec"], f["target"], st.norm))
        elif f.get("kind") == "change_profile" and "target" in f:
            lst.append((fname, cur if cur is not None else st.block, "change_profile", "", f["target"], st.norm))

    for fn in files:
        p = os.path.join(aad, fn)
        sc = scan_file(p)
        for b in sc.blocks:
            defs.add(b.qname)
        for st in sc.stmts:
            if st.block is not None:
                add_refs(refs, fn, st, None)
        # blocks and references contributed by includes inside a block
        for (ln, blk, ifex, magic, ip) in sc.includes:
            if not magic or blk is None:
                continue
            if not (ip.startswith("mappings/") or ip.startswith("abstractions/")):
                continue
            seen = set()
            stack = [ip]
            while stack:
                cur = stack.pop()
                for base in (aad, UPSTREAM):
                    q = os.path.join(base, cur)
                    if os.path.isdir(q):
                        for x in sorted(os.listdir(q)):
                            stack.append(os.path.join(cur, x))
                        break
                    if os.path.isfile(q):
                        if q in seen:
                            break
                        seen.add(q)
                        isc = scan_file(q)
                        for b in isc.blocks:
                            defs.add(blk + "//" + b.qname)
                        for st in isc.stmts:
                            cb = blk if st.block is None else blk + "//" + st.block
                            add_refs(refs, fn + " (via " + cur + ")", st, cb)
                        for (l2, b2, ie2, m2, ip2) in isc.includes:
                            if m2 and (ip2.startswith("mappings/") or ip2.startswith("abstractions/")):
                                stack.append(ip2)
                        break
    return defs, refs


def _collect_one(aad):
    if aad is None:
        return None
    defs, refs = collect(aad)
    return defs, refs, shipped_variables(aad)


def resolve(target, cur, kind, mode, defs, variables):
    """Returns list of unresolved components (empty = resolves)."""
    t = target.strip('"')
    if t.startswith("&"):
        t = t[1:]
    bad = []
    comps = re.split(r"//&", t)
    for i, c in enumerate(comps):
        c = c.lstrip("&")
        if not c:
            continue
        vs = re.findall(r"@\{([A-Za-z0-9_]+)\}", c)
        if vs:
            undefined = [v for v in vs if v not in variables]
            if undefined:
                bad.append("%s (undefined variable %s)" % (c, ",".join(undefined)))
            continue
        if RE_GLOB.search(c) or c.startswith(":"):
            continue
        if c in ("unconfined",):
            continue
        cands = [c]
        m = (mode or "").lower()
        if kind == "exec" and m.startswith("c") and i == 0:
            top = cur.split("//")[0] if cur else ""
            cands = [cur + "//" + c, top + "//" + c]
        if not any(x in defs for x in cands):
            bad.append(c)
    return bad


def run(ctx):
    ctx.build_bins(worker=False)
    if ctx.tier == "thorough":
        cfgs = matrix.all_cfgs()
        ctx.exhaustive = True
    else:
        # references do not depend on mode/abi/version much: every dist x full, other factors from the seed
        cfgs = []
        for d in matrix.DISTS:
            for f in matrix.FULLS:
                cfgs.append(matrix.Cfg(d, ctx.rng.choice(matrix.ABIS), ctx.rng.choice(matrix.VERS), ctx.rng.choice(matrix.MODES), f))
    ctx.rule = ("each reference (exec transition target, change_profile target, stack component, AppArmorProfile= of a drop-in) "
                "of each real build is one case, resolved against the blocks defined in the same output (plus the upstream "
                "policy directory it is installed over and the shipped variables); plus each name in an exec/stack directive, "
                "flags manifest or the overwrite list against the source tree; non-trivial = distinct (file, target)")
    ups = upstream_defs()
    builds, bad = matrix.build_many(ctx, cfgs, tap=False)
    agg = {}
    for b in bad:
        ctx.violation("C08/build-failed/" + b.cfg.id, "prebuild failed: " + b.log[-300:], {"cfg": b.cfg.id})

    results = pmap_proc(_collect_one, [b.aad if b.rc == 0 else None for b in builds])
    for b, r in zip(builds, results):
        if r is None:
            continue
        defs, refs, variables = r
        defs = defs | ups
        built_names = {n[:-len(".apparmor.d")] if n.endswith(".apparmor.d") else n for n in matrix.top_profiles(b.aad)}
        for (fn, cur, kind, mode, target, text) in refs:
            ctx.case(digest(fn, target))
            for c in resolve(target, cur or "", kind, mode, defs, variables):
                key = "C08/dangling/%s->%s" % (fn.split(" ")[0], c)
                agg.setdefault(key, []).append((b.cfg.id, "%s: `%s` (in %s) names %s, defined nowhere in this build" % (fn, text, cur, c)))
        # drop-ins
        sd = os.path.join(b.root, "systemd")
        for dp, dns, fns in os.walk(sd):
            for f in fns:
                p = os.path.join(dp, f)
                t = matrix.read(p)
                for m in re.finditer(r"^\s*AppArmorProfile\s*=\s*(\S+)", t, re.M):
                    name = m.group(1)
                    ctx.case(digest("dropin", f, name))
                    if name not in defs:
                        key = "C08/dropin/%s->%s" % (os.path.relpath(p, sd), name)
                        agg.setdefault(key, []).append((b.cfg.id, "drop-in %s sets AppArmorProfile=%s, not built" % (os.path.relpath(p, sd), name)))
        shutil.rmtree(b.root, ignore_errors=True)
    for key, lst in sorted(agg.items()):
        cf = sorted({c for c, _ in lst})
        ctx.violation(key, "%s  [%d configuration(s), e.g. %s]" % (lst[0][1], len(cf), cf[0]), {"configs": cf})
    # source-level names
    src_names = set()
    root = os.path.join(REPO, "apparmor.d")
    from .c19 import profile_files
    for p in profile_files(root):
        n = os.path.basename(p)
        src_names.add(n)
        if n.endswith(".apparmor.d"):
            src_names.add(n[:-len(".apparmor.d")])
    for dp, dns, fns in os.walk(root):
        for fn in fns:
            p = os.path.join(dp, fn)
            t = matrix.read(p)
            if "#aa:" not in t:
                continue
            for m in re.finditer(r"#aa:(exec|stack)( .*)?$", t, re.M):
                args = (m.group(2) or "").split()
                if args and (args[0] in ("P", "U", "p", "u", "PU", "pu", "X")):
                    args = args[1:]
                for a in args:
                    ctx.case(digest("dir", fn, a))
                    if a not in src_names:
                        ctx.violation("C08/directive-target/%s->%s" % (fn, a),
                                      "%s: #aa:%s names %s, no such profile file in the source tree" % (os.path.relpath(p, REPO), m.group(1), a),
                                      {"file": p, "name": a})
    for fl in sorted(os.listdir(os.path.join(REPO, "dists", "flags"))):
        for prof in model.read_flags(REPO, fl[:-len(".flags")]):
            ctx.case(digest("flags", fl, prof))
            if prof not in src_names:
                ctx.violation("C08/flags-manifest/%s->%s" % (fl, prof), "dists/flags/%s names %s, no such profile in the source tree" % (fl, prof),
                              {"manifest": fl, "name": prof})
    for n in model.read_manifest(os.path.join(REPO, "dists", "overwrite")):
        n = n.strip()
        ctx.case(digest("ow", n))
        if n not in src_names:
            ctx.violation("C08/overwrite-list/%s" % n, "dists/overwrite names %s, no such profile in the source tree" % n, {"name": n})
    # a tree variant: a profile that stack/exec directives name is put on a distribution's ignore list. The tool either
    # refuses to build (today: the directive cannot read the file) or builds something without dangling references
    dir_targets = {"stack": set(), "exec": set()}
    for dp, dns, fns in os.walk(root):
        for fn in fns:
            t = matrix.read(os.path.join(dp, fn))
            for m in re.finditer(r"#aa:(exec|stack)( .*)?$", t, re.M):
                for a in (m.group(2) or "").split():
                    if a not in ("P", "U", "p", "u", "PU", "pu", "X"):
                        dir_targets[m.group(1)].add(a)
    vcfg = matrix.Cfg("arch", "4", "4.1", "none", "full")       # (--full builds every host of a stack directive)
    alltext = "\n".join(matrix.read(os.path.join(dp, fn)) for dp, dns, fns in os.walk(root) for fn in fns)
    for kind in ("stack",):       # (exec directives generate rules without a named target: nothing can dangle by name)
        cand = sorted(t for t in dir_targets[kind] if ("//&" + t) in alltext)
        if not cand:
            continue
        victim = ctx.rng.choice(cand)

        def mut(src, victim=victim):
            with open(os.path.join(src, "dists", "ignore", vcfg.dist + ".ignore"), "a") as f:
                f.write(victim + "\n")

        nb = matrix.run_build(ctx, vcfg, tag="ignored-" + kind, tap=False, src_mutator=mut)
        ctx.case(digest("variant-ignore", kind, victim), {"variant": "ignore list gains " + victim, "prebuild_rc": nb.rc})
        if nb.rc == 0:
            r = _collect_one(nb.aad)
            if r is not None:
                defs, refs, variables = r
                defs = defs | ups
                for (fn, cur, kind_, mode, target, text) in refs:
                    for c in resolve(target, cur or "", kind_, mode, defs, variables):
                        if victim in c.replace("//&", "//").split("//"):
                            ctx.violation("C08/dangling-after-ignore/%s" % kind,
                                          "with %s on the ignore list the build succeeds and %s still names it: `%s`" % (victim, fn, text),
                                          {"ignored": victim, "file": fn, "rule": text})
        ctx.extra.setdefault("ignore_variants", []).append({"ignored": victim, "directive": kind, "prebuild_rc": nb.rc})
        shutil.rmtree(nb.root, ignore_errors=True)
    ctx.require(ctx.evaluations >= 500 * max(1, len([b for b in builds if b.rc == 0])), "only %d references seen" % ctx.evaluations)
    ctx.extra["configurations"] = len(cfgs)
    ctx.samples = [{"cfg": c.id} for c in cfgs[:3]]
