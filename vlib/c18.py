"""C18 - build options are orthogonal: two builds differing in one option differ only where it governs."""
import collections
import difflib
import os
import re
import shutil

from . import matrix, model, scan
from .common import REPO, digest, pmap, pmap_proc

RE_DIR = re.compile(r"#aa:(only|exclude)( .*)?$")
RE_AA4 = re.compile(r"^(#\s*)?((audit|deny|allow)\s+)*(userns|mqueue|io_uring|all)\b")
RE_FLAGS = re.compile(r"flags=\([^)]*\)")
OPTIONS = ["dist", "abi", "ver", "mode", "full"]


def norm(l):
    return " ".join(l.split())


def guard_index():
    """normalised guarded source line -> [(kind, words)] over the whole source tree."""
    guard = collections.defaultdict(list)
    for dp, dns, fns in os.walk(os.path.join(REPO, "apparmor.d")):
        for f in fns:
            try:
                lines = matrix.read(os.path.join(dp, f)).split("\n")
            except OSError:
                continue
            i = 0
            while i < len(lines):
                m = RE_DIR.search(lines[i])
                if not m:
                    i += 1
                    continue
                kind = m.group(1)
                words = (m.group(2) or "").split()
                left = lines[i][:m.start()].rstrip()
                if left.strip():
                    add(guard, left, kind, words)
                    i += 1
                    continue
                i += 1
                while i < len(lines) and lines[i].strip() and not RE_DIR.search(lines[i]):
                    add(guard, lines[i], kind, words)
                    i += 1
    return guard


def add(guard, line, kind, words):
    n = norm(line).lower()
    guard[n].append((kind, words))
    f = re.sub(r"\br(pu|u)x,", "rpx,", n)      # the same line as a --full build writes it
    if f != n:
        guard[f].append((kind, words))


def truth(kind, words, cfg):
    t = any(w in (cfg.dist, matrix.FAMILY[cfg.dist], "abi" + cfg.abi, "apparmor" + cfg.ver) for w in words)
    return t if kind == "only" else not t


def guarded_flip(guard, line, c1, c2):
    n = norm(line).lower()
    cands = [n]
    if n.startswith("# "):
        cands.append(n[2:])           # abi3 comments out guarded AppArmor-4 statements
    for c in cands:
        for kind, words in guard.get(c, []):
            if truth(kind, words, c1) != truth(kind, words, c2):
                return True
    return False


def is_header(line):
    code, _ = scan.strip_comment(line)
    return code.rstrip().endswith("{") and scan.parse_header(code) is not None


def header_rest(line):
    code, _ = scan.strip_comment(line)
    return scan.parse_header(code).rest()


def key_name(rel, option):
    """File identity across the pair (the ABI-4 overwrite rename is governed by the abi option)."""
    if option == "abi" and rel.endswith(".apparmor.d"):
        return rel[:-len(".apparmor.d")]
    return rel


def explain(option, l1, l2, c1, c2, rel, guard, flagged):
    present = [l for l in (l1, l2) if l is not None]
    if all(not l.strip() for l in present):
        return "blank"
    if option == "mode":
        if l1 is not None and l2 is not None and is_header(l1) and is_header(l2) and header_rest(l1) == header_rest(l2):
            return "header"
        return None
    if all(guarded_flip(guard, l, c1, c2) for l in present if l.strip()):
        return "guarded"
    if option == "abi":
        if l1 is not None and l2 is not None:
            a, b = norm(l1), norm(l2)
            if {a, b} == {"abi <abi/3.0>,", "abi <abi/4.0>,"}:
                return "abi-decl"
            if RE_AA4.match(a) and RE_AA4.match(b) and a.lstrip("# ") == b.lstrip("# ") and (a.startswith("#") != b.startswith("#")):
                return "aa4-commented"
        return None
    if option == "dist":
        if l1 is not None and l2 is not None and is_header(l1) and is_header(l2) and header_rest(l1) == header_rest(l2) and rel in flagged:
            return "flags-manifest-header"
        return None
    if option == "full":
        if l1 is not None and l2 is not None:
            a, b = norm(l1), norm(l2)
            fa = re.sub(r"\br(pu|u)x,", "rpx,", a, flags=re.I).lower()
            fb = re.sub(r"\br(pu|u)x,", "rpx,", b, flags=re.I).lower()
            if a != b and (fa == b.lower() or fb == a.lower()):
                if a.startswith("#") and b.startswith("#"):
                    a, b = a.lstrip("# "), b.lstrip("# ")      # the exec mode of a commented-out rule
                sa, sb = scan.rule_fields(a.rstrip(",")), scan.rule_fields(b.rstrip(","))
                if sa.get("kind") == "file" and sb.get("kind") == "file" and sa.get("path") == sb.get("path"):
                    return "exec-mode"
        return None
    return None


def read_tree(aad):
    res = {}
    for dp, dns, fns in os.walk(aad):
        for f in fns + [d for d in dns if os.path.islink(os.path.join(dp, d))]:
            p = os.path.join(dp, f)
            rel = os.path.relpath(p, aad)
            if os.path.islink(p):
                res[rel] = ("L", os.readlink(p))
            else:
                res[rel] = ("F", matrix.read(p))
    return res


_G = {}


def compare_pair(args):
    (id1, root1, id2, root2, option) = args
    c1, c2 = matrix.Cfg.parse(id1), matrix.Cfg.parse(id2)
    guard = _G["guard"]
    t1 = read_tree(os.path.join(root1, "apparmor.d"))
    t2 = read_tree(os.path.join(root2, "apparmor.d"))
    e1 = model.expected(REPO, c1.dist, c1.abi, c1.ver, c1.full == "full")
    e2 = model.expected(REPO, c2.dist, c2.abi, c2.ver, c2.full == "full")
    flagged = set()
    if option == "dist":
        for d in (c1.dist, c2.dist):
            for prof, fl in model.read_flags(REPO, d).items():
                flagged.add(prof)
                flagged.add(prof + ".apparmor.d")
    k1 = {key_name(r, option): r for r in t1}
    k2 = {key_name(r, option): r for r in t2}
    ek1 = {key_name(r, option) for r in e1.aad}
    ek2 = {key_name(r, option) for r in e2.aad}
    out = []       # (kind, rel, detail)
    stats = collections.Counter()
    ncases = 0
    for k in sorted(set(k1) ^ set(k2)):
        ncases += 1
        # a file on one side only: explained iff the manifest model predicts exactly that
        if (k in k1) == (k in ek1) and (k in k2) == (k in ek2) and option in ("dist", "ver", "full", "abi"):
            stats["file-set(model)"] += 1
        else:
            out.append(("file-set", k, "present only in %s" % (id1 if k in k1 else id2)))
    for k in sorted(set(k1) & set(k2)):
        a, b = t1[k1[k]], t2[k2[k]]
        if a == b:
            continue
        ncases += 1
        if a[0] == "L" or b[0] == "L":
            out.append(("link", k, "%r vs %r" % (a[:2], b[:2])))
            continue
        # different source files behind the same output path (configure step, _full profiles)
        s1 = e1.aad.get(k1[k])
        s2 = e2.aad.get(k2[k])
        if s1 and s2 and s1 != s2 and option in ("dist", "ver", "full"):
            stats["other-source(model)"] += 1
            continue
        if option == "full" and (k in e1.edits or k in e2.edits):
            ed = e2.edits.get(k) or e1.edits.get(k)
            plain, edited = (a[1], b[1]) if k in e2.edits else (b[1], a[1])
            if ed(plain) == edited:
                stats["documented-edit"] += 1
                continue
        la = [l for l in a[1].split("\n") if l.strip()]      # blank lines are layout
        lb = [l for l in b[1].split("\n") if l.strip()]
        if la == lb:
            stats["blank-lines-only"] += 1
            continue
        sm = difflib.SequenceMatcher(None, la, lb, autojunk=False)
        for tag, i1, i2, j1, j2 in sm.get_opcodes():
            if tag == "equal":
                continue
            A, B = la[i1:i2], lb[j1:j2]
            if tag == "replace" and len(A) == len(B):
                pairs = list(zip(A, B))
            else:
                pairs = [(x, None) for x in A] + [(None, y) for y in B]
            for x, y in pairs:
                e = explain(option, x, y, c1, c2, k, guard, flagged)
                if e:
                    stats[e] += 1
                else:
                    out.append(("line", k, "%r -> %r" % (x, y)))
    # drop-ins
    for sub in ("systemd", "share"):
        m1 = matrix.manifest(root1, sub=(sub,))
        m2 = matrix.manifest(root2, sub=(sub,))
        if m1 != m2:
            ncases += 1
            f1 = {r for r, v in m1.items() if v[0] != "d"}
            f2 = {r for r, v in m2.items() if v[0] != "d"}
            if sub == "systemd" and option == "full":
                if f1 == {("systemd/" + r) for r in e1.systemd} and f2 == {("systemd/" + r) for r in e2.systemd}:
                    stats["drop-ins(model)"] += 1
                    continue
            if sub == "share" and option == "dist":
                same = all(m1[r] == m2[r] for r in f1 & f2)
                if same and f1 == {("share/" + r) for r in e1.share} and f2 == {("share/" + r) for r in e2.share}:
                    stats["share(ignore-list model)"] += 1
                    continue
            out.append(("tree", sub, "%s differs between the two builds" % sub))
    return (id1, id2, option, out, dict(stats), ncases)


def neighbours(c):
    res = []
    for d in matrix.DISTS:
        if d != c.dist:
            res.append((c.replace(dist=d), "dist"))
    for a in matrix.ABIS:
        if a != c.abi:
            res.append((c.replace(abi=a), "abi"))
    for v in matrix.VERS:
        if v != c.ver:
            res.append((c.replace(ver=v), "ver"))
    for m in matrix.MODES:
        if m != c.mode:
            res.append((c.replace(mode=m), "mode"))
    for f in matrix.FULLS:
        if f != c.full:
            res.append((c.replace(full=f), "full"))
    return res


def run(ctx):
    ctx.build_bins(worker=False)
    rng = ctx.rng
    allc = matrix.all_cfgs()
    pairs = set()
    if ctx.tier == "thorough":
        for c in allc:
            for n, opt in neighbours(c):
                a, b = sorted([c, n])
                pairs.add((a, b, opt))
        ctx.exhaustive = True
    else:
        bases = [matrix.Cfg("arch", "4", "4.1", "none", "normal"), rng.choice(allc)]
        for base in bases:
            for n, opt in neighbours(base):
                a, b = sorted([base, n])
                pairs.add((a, b, opt))
        extra = rng.sample(matrix.covering(rng, extra=0), 6)
        for base in extra:
            for n, opt in rng.sample(neighbours(base), 3):
                a, b = sorted([base, n])
                pairs.add((a, b, opt))
    pairs = sorted(pairs)
    cfgs = sorted({c for a, b, _ in pairs for c in (a, b)})
    ctx.rule = ("each pair of configurations at Hamming distance one (quick: all neighbours of two base configurations + seed-drawn "
                "pairs; thorough: all 900) is compared file by file and line by line on the output of real prebuild runs; every "
                "differing file, link or line must be explained by a rule of the changed option (header flags, abi declaration, "
                "commented AppArmor-4 statement, guarded source line whose guard flips, manifest-model file set, documented edit, "
                "exec-mode u removal, drop-in model); one case = one differing file/tree of one pair; non-trivial = distinct (pair, file)")
    builds, bad = matrix.build_many(ctx, cfgs, tap=False)
    for b in bad:
        ctx.violation("C18/build-failed/" + b.cfg.id, "prebuild failed: " + b.log[-300:], {"cfg": b.cfg.id})
    roots = {b.cfg: b.root for b in builds if b.rc == 0}
    _G["guard"] = guard_index()
    jobs = [(a.id, roots[a], b.id, roots[b], opt) for a, b, opt in pairs if a in roots and b in roots]
    results = pmap_proc(compare_pair, jobs)
    agg = {}
    tot = collections.Counter()
    for (id1, id2, option, out, stats, ncases) in results:
        for k, v in stats.items():
            tot[option + ":" + k] += v
        ctx.evaluations += max(1, ncases)
        for i in range(ncases):
            ctx.nontrivial.add(digest(id1, id2, i))
        for kind, rel, detail in out:
            key = "C18/%s/%s/%s/%s" % (option, kind, rel, digest(re.sub(r"\s+", " ", detail))[:8])
            agg.setdefault(key, []).append(("%s|%s" % (id1, id2), detail))
    for b in builds:
        shutil.rmtree(b.root, ignore_errors=True)
    for key, lst in sorted(agg.items()):
        ctx.violation(key, "switching %s only: unexplained difference in %s: %s  [%d pair(s), e.g. %s]" % (
            key.split("/")[1], key.split("/")[3], lst[0][1][:300], len(lst), lst[0][0]), {"pairs": [p for p, _ in lst][:40]})
    ctx.require(len(jobs) >= 10 and sum(tot.values()) >= 100 * len(jobs), "%d pairs, %d explained differences" % (len(jobs), sum(tot.values())))
    ctx.extra["pairs"] = len(jobs)
    ctx.extra["builds"] = len(cfgs)
    ctx.extra["explained_differences"] = dict(tot)
    ctx.samples = [{"pair": [a.id, b.id], "option": o} for a, b, o in pairs[:4]]
