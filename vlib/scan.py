"""Independent scanner for AppArmor policy text (no code of the project is used).

Splits text into comments / directives / includes / comma-terminated statements /
block headers / block ends, tracks nesting, and extracts the fields the monitors need."""
import re

RE_FLAGS = re.compile(r"\bflags\s*=\s*\(([^)]*)\)")
RE_XATTRS = re.compile(r"\bxattrs\s*=\s*\(([^)]*)\)")
RE_INCLUDE = re.compile(r"^#?include\s+(if\s+exists\s+)?([<\"])([^>\"]+)[>\"]\s*,?\s*(#.*)?$")
RE_DIRECTIVE = re.compile(r"#aa:([a-z]*)( .*)?$")
EXEC_MODES = ["pux", "Pux", "PUx", "pUx", "cux", "Cux", "CUx", "cUx", "pix", "Pix", "cix", "Cix",
              "ux", "Ux", "px", "Px", "cx", "Cx", "ix", "x"]
QUALS = ("audit", "deny", "allow", "quiet", "priority")
KINDS = {"capability", "network", "mount", "remount", "umount", "pivot_root", "change_profile", "signal",
         "ptrace", "unix", "dbus", "rlimit", "userns", "mqueue", "io_uring", "all", "link", "file",
         "set", "alias", "abi", "include"}


def strip_comment(line):
    """Return (code, comment) - '#' starts a comment at start or after white space,
    outside quotes and brackets."""
    depth = 0
    quote = False
    i = 0
    n = len(line)
    while i < n:
        c = line[i]
        if c == "\\" and i + 1 < n:
            i += 2
            continue
        if c == '"':
            quote = not quote
        elif not quote:
            if c == "{" and (line[i + 1:].strip() == "" or line[i + 1:].lstrip().startswith("#")):
                pass        # the brace that opens a block (nothing but a comment may follow it): not an alternation
            elif c in "({":
                depth += 1
            elif c in ")}":
                depth = max(0, depth - 1)
            elif c == "#" and depth == 0 and (i == 0 or line[i - 1] in " \t"):
                return line[:i].rstrip(), line[i:]
        i += 1
    return line.rstrip(), ""


def split_statements(code):
    """Split a code fragment at depth-0 commas followed by white space / end."""
    out = []
    depth = 0
    quote = False
    cur = []
    i = 0
    n = len(code)
    while i < n:
        c = code[i]
        if c == "\\" and i + 1 < n:
            cur.append(code[i:i + 2])
            i += 2
            continue
        if c == '"':
            quote = not quote
        elif not quote:
            if c in "({":
                depth += 1
            elif c in ")}":
                depth = max(0, depth - 1)
            elif c == "," and depth == 0 and (i + 1 == n or code[i + 1] in " \t"):
                out.append(("".join(cur).strip(), True))
                cur = []
                i += 1
                continue
        cur.append(c)
        i += 1
    rest = "".join(cur).strip()
    if rest:
        out.append((rest, False))
    return out


def tokens(stmt):
    """White-space split outside quotes and brackets."""
    out = []
    depth = 0
    quote = False
    cur = []
    i = 0
    n = len(stmt)
    while i < n:
        c = stmt[i]
        if c == "\\" and i + 1 < n:
            cur.append(stmt[i:i + 2])
            i += 2
            continue
        if c == '"':
            quote = not quote
        elif not quote:
            if c in "({":
                depth += 1
            elif c in ")}":
                depth = max(0, depth - 1)
            elif c in " \t\n" and depth == 0:
                if cur:
                    out.append("".join(cur))
                    cur = []
                i += 1
                continue
        cur.append(c)
        i += 1
    if cur:
        out.append("".join(cur))
    return out


class Header:
    __slots__ = ("kind", "name", "attachments", "xattrs", "flags", "has_flags", "raw", "profile_kw")

    def rest(self):
        """Header minus flags=(...), white-space normalised."""
        s = RE_FLAGS.sub("", self.raw)
        s = s.rstrip()
        if s.endswith("{"):
            s = s[:-1]
        return " ".join(s.split())


def parse_header(code):
    """code: a line (comment stripped) ending with '{'. Returns Header or None."""
    s = code.strip()
    if not s.endswith("{"):
        return None
    body = s[:-1].strip()
    h = Header()
    h.raw = s
    m = RE_FLAGS.search(body)
    h.has_flags = bool(m)
    h.flags = [f for f in re.split(r"[,\s]+", m.group(1).strip()) if f] if m else []
    body2 = RE_FLAGS.sub(" ", body)
    mx = RE_XATTRS.search(body2)
    h.xattrs = mx.group(1).strip() if mx else None
    body2 = RE_XATTRS.sub(" ", body2)
    toks = tokens(body2)
    if not toks:
        return None
    h.profile_kw = False
    if toks[0] == "profile":
        h.kind = "profile"
        h.profile_kw = True
        toks = toks[1:]
    elif toks[0] == "hat":
        h.kind = "hat"
        toks = toks[1:]
    elif toks[0].startswith("^"):
        h.kind = "hat"
        toks[0] = toks[0][1:]
    elif toks[0].startswith("/") or toks[0].startswith("@{") or toks[0].startswith('"'):
        h.kind = "profile"
    else:
        return None
    if not toks:
        return None
    h.name = toks[0].strip('"')
    h.attachments = toks[1:]
    if not h.profile_kw and h.kind == "profile":
        h.attachments = []
    return h


class Stmt:
    __slots__ = ("text", "line", "end_line", "block", "depth", "comment", "terminated", "_f")

    def __init__(self, text, line, end_line, block, depth, comment, terminated):
        self.text = text
        self.line = line
        self.end_line = end_line
        self.block = block
        self.depth = depth
        self.comment = comment
        self.terminated = terminated
        self._f = None

    @property
    def norm(self):
        return " ".join(self.text.split())

    def fields(self):
        if self._f is None:
            self._f = rule_fields(self.text)
        return self._f


class Block:
    __slots__ = ("header", "qname", "line", "end_line", "depth", "parent", "file")


class Scan:
    """Result of scanning one file."""

    def __init__(self):
        self.blocks = []      # Block, in order of opening
        self.stmts = []       # Stmt (rules) in order
        self.includes = []    # (line, block qname|None, ifexists, magic, path)
        self.directives = []  # (line, name, args list, inline: bool, raw line, block)
        self.comments = []    # (line, text)
        self.preamble = []    # Stmt at depth 0
        self.unbalanced = False


def scan(text):
    res = Scan()
    stack = []
    pending = None   # (text, first line) of an unterminated statement
    lines = text.split("\n")
    for ln, raw in enumerate(lines, 1):
        code, comment = strip_comment(raw)
        cur_block = stack[-1].qname if stack else None
        if comment:
            m = RE_DIRECTIVE.search(comment)
            if m and comment.find("#aa:") >= 0:
                inline = bool(code.strip())
                res.directives.append((ln, m.group(1), (m.group(2) or "").split(), inline, raw, cur_block))
            else:
                res.comments.append((ln, comment))
        s = code.strip()
        if not s:
            continue
        if pending is None:
            m = RE_INCLUDE.match(s) if (s.startswith("include") or s.startswith("#include")) else None
            if m:
                res.includes.append((ln, cur_block, bool(m.group(1)), m.group(2) == "<", m.group(3)))
                continue
            if s == "}":
                if stack:
                    b = stack.pop()
                    b.end_line = ln
                else:
                    res.unbalanced = True
                continue
            if s.endswith("{") and _depth_ok(s):
                h = parse_header(s)
                if h is not None:
                    b = Block()
                    b.header = h
                    b.parent = stack[-1] if stack else None
                    b.qname = (b.parent.qname + "//" + h.name) if b.parent else h.name
                    b.line = ln
                    b.end_line = None
                    b.depth = len(stack)
                    stack.append(b)
                    res.blocks.append(b)
                    continue
        # rule text
        if pending is not None:
            s = pending[0] + " " + s
            first = pending[1]
            pending = None
        else:
            first = ln
        parts = split_statements(s)
        for text_, term in parts:
            if term:
                st = Stmt(text_, first, ln, cur_block, len(stack), comment, True)
                res.stmts.append(st)
                if not stack:
                    res.preamble.append(st)
            else:
                # variable / alias style lines at depth 0 have no comma
                if not stack and (text_.startswith("@{") or text_.startswith("${")):
                    st = Stmt(text_, first, ln, None, 0, comment, False)
                    res.preamble.append(st)
                else:
                    pending = (text_, first)
    if stack:
        res.unbalanced = True
    if pending is not None:
        st = Stmt(pending[0], pending[1], len(lines), stack[-1].qname if stack else None, len(stack), "", False)
        res.stmts.append(st)
    return res


def _depth_ok(s):
    """True when the final '{' of s is at bracket depth 0 (a block opener)."""
    depth = 0
    quote = False
    i = 0
    n = len(s)
    while i < n - 1:
        c = s[i]
        if c == "\\":
            i += 2
            continue
        if c == '"':
            quote = not quote
        elif not quote:
            if c in "({":
                depth += 1
            elif c in ")}":
                depth -= 1
        i += 1
    return depth == 0 and not quote


RE_ACCESS = re.compile(r"^[rwamlkdDixpPuUcC]+$")


def split_access(word):
    """Split a file access word into (sorted plain letters, exec mode or None)."""
    for m in EXEC_MODES:
        idx = word.find(m)
        if idx >= 0:
            rest = word[:idx] + word[idx + len(m):]
            if all(ch in "rwamlkd" for ch in rest):
                return "".join(sorted(set(rest))), m
    if all(ch in "rwamlkd" for ch in word):
        return "".join(sorted(set(word))), None
    return None, None


def rule_fields(text):
    """Extract {quals, owner, kind, path, access, letters, exec, target, conds, toks}."""
    toks = tokens(text)
    f = {"quals": [], "owner": False, "kind": None, "toks": toks}
    i = 0
    while i < len(toks) and toks[i] in QUALS:
        f["quals"].append(toks[i])
        i += 1
    if i < len(toks) and toks[i] in ("owner", "other"):
        f["owner"] = toks[i]
        i += 1
    if i >= len(toks):
        return f
    t = toks[i]
    if t.startswith("/") or t.startswith("@{") or t.startswith('"') or t.startswith("{"):
        f["kind"] = "file"
        f["path"] = t
        rest = toks[i + 1:]
        if rest:
            f["access"] = rest[0]
            f["letters"], f["exec"] = split_access(rest[0])
            if len(rest) >= 3 and rest[1] == "->":
                f["target"] = rest[2]
        return f
    if t == "file" and i + 1 < len(toks):
        f["kind"] = "file"
        rest = toks[i + 1:]
        # 'file rw /path,' or 'file /path rw,'
        if rest and (rest[0].startswith("/") or rest[0].startswith("@{") or rest[0].startswith('"')):
            f["path"] = rest[0]
            if len(rest) > 1:
                f["access"] = rest[1]
                f["letters"], f["exec"] = split_access(rest[1])
        elif len(rest) > 1:
            f["access"] = rest[0]
            f["letters"], f["exec"] = split_access(rest[0])
            f["path"] = rest[1]
        if "->" in rest:
            k = rest.index("->")
            if k + 1 < len(rest):
                f["target"] = rest[k + 1]
        return f
    if RE_ACCESS.match(t) and i + 1 < len(toks) and (toks[i + 1].startswith("/") or toks[i + 1].startswith("@{")):
        # 'rw /path,' form
        f["kind"] = "file"
        f["access"] = t
        f["letters"], f["exec"] = split_access(t)
        f["path"] = toks[i + 1]
        rest = toks[i + 2:]
        if len(rest) >= 2 and rest[0] == "->":
            f["target"] = rest[1]
        return f
    f["kind"] = t if t in KINDS else t
    conds = {}
    pos = []
    for tk in toks[i + 1:]:
        m = re.match(r"^([a-z_]+)=(.*)$", tk, re.S)
        if m:
            conds[m.group(1)] = m.group(2)
        else:
            pos.append(tk)
    f["conds"] = conds
    f["pos"] = pos
    if f["kind"] == "change_profile":
        if "->" in pos:
            k = pos.index("->")
            if k + 1 < len(pos):
                f["target"] = pos[k + 1]
    return f
