"""C12 - what the library prints means the same to the real AppArmor parser
(translation validation: library text vs the harness's canonical rendering of the same fields)."""
import os
import re

from . import logsgen, matrix, refparser, rulegen, worker
from .c09 import calibrate, source_overlay, stub
from .c10 import compare_policies
from .common import REPO, digest, pmap

AA3 = set(rulegen.AA3_KINDS)


def canon_from_dump(x):
    """Canonical rendering of a rule from the library's own field dump."""
    f = dict(x["fields"])
    f["kind"] = x["kind"]
    for k in ("Names", "Access", "Options", "Set"):
        if k in f and f[k] is None:
            f[k] = []
    f["Comment"] = ""
    defaults = {"file": {"Target": "", "Owner": False}, "link": {"Owner": False, "Subset": False}}
    for k, v in defaults.get(x["kind"], {}).items():
        f.setdefault(k, v)
    return rulegen.canon(f)


def squash(t):
    return " ".join(re.sub(r"\s*#.*$", "", l).strip() for l in t.split("\n") if l.strip()).replace("( ", "(").replace(" )", ")")


def judge(ov, lib_texts, canon_texts):
    """Returns ('ok'|'rejected'|'differs'|'inconclusive'|'out-of-domain', detail)."""
    a = stub(lib_texts)
    rc, out, err = refparser.dump_struct(a, ov=ov, timeout=60)
    if rc is None:
        return ("inconclusive", "parser timeout")
    if rc != 0:
        # is the canonical rendering of the same fields accepted? (otherwise the field combination itself is invalid)
        rc2, _, _ = refparser.dump_struct(stub(canon_texts), ov=ov, timeout=60)
        msg = " ".join(l for l in err.split("\n") if l and not l.startswith("Cache"))[-250:]
        if rc2 != 0:
            return ("out-of-domain", msg)
        return ("rejected", msg)
    if squash("\n".join(lib_texts)) == squash("\n".join(canon_texts)):
        return ("ok", None)
    pv = compare_policies(stub(canon_texts), a, ov)
    if pv[0] in ("equal", "equal-by-automata"):
        return ("ok", None)
    if pv[0] == "inconclusive":
        return ("inconclusive", pv[1])
    if pv[0] == "reject-a":
        return ("out-of-domain", "canonical rendering rejected")
    return ("differs", str(pv[1]))


def run(ctx):
    refparser.require()
    ctx.build_bins()
    rng = ctx.rng
    n_rules, n_blocks, n_logs = (3000, 300, 1500) if ctx.tier == "quick" else (80000, 8000, 20000)
    ctx.rule = ("each printed text is one program pair: the text the real library prints (single rules of the 14 AppArmor-3 kinds, blocks after "
                "Merge+Sort+Format, rules built from generated log records, rules expanded from shipped dbus/exec directives) must be accepted "
                "by apparmor_parser, and compile to the same policy as the harness's canonical rendering of the same rule fields (equal bytes, "
                "else equivalence of every dumped automaton + capability/network/rlimit lines). Non-trivial = pairs whose two texts differ "
                "beyond white space")
    ov = source_overlay(ctx)
    agg = {}
    programs = 0
    disagreements = 0

    def viol(key, what, case):
        agg.setdefault(key, []).append((what, case))

    # --- single rules -------------------------------------------------------------------------
    rules = [rulegen.gen_rule(rng, kinds=rulegen.AA3_KINDS) for _ in range(n_rules)]
    rules = [r for r in rules if not any("=" in str(r.get(k, "")) for k in ("Path", "Target", "Source", "MountPoint", "OldRoot", "NewRoot", "Exec"))]
    rules, ood = calibrate(ctx, rules, ov)
    ctx.extra["out_of_domain_rules"] = ood
    reqs = [{"id": i, "do": "rules", "text": "  " + rulegen.canon(r) + "\n\n", "validate": True} for i, r in enumerate(rules)]
    reps = []
    for part in pmap(lambda ch: worker.run_isolating(ctx, "aa", ch, lambda r, e: None, timeout=900), [reqs[i:i + 1000] for i in range(0, len(reqs), 1000)]):
        reps += part
    jobs = []
    for r, rep in zip(rules, reps):
        if "ok" not in rep or rep["ok"].get("validate_error") or len(rep["ok"]["parsed"]) != 1:
            continue
        p0 = rep["ok"]["parsed"][0]
        if rulegen.compare_intent(r, p0["kind"], p0["fields"]):
            continue          # parse fidelity is C09's business
        jobs.append(("rule/" + r["kind"], [p0["text"]], [rulegen.canon(dict(r, Comment=""))]))
    # --- blocks -------------------------------------------------------------------------------
    blocks = [[rng.choice(rules) for _ in range(rng.randint(2, 10))] for _ in range(n_blocks)]
    reqs = [{"id": i, "do": "rules", "text": "".join("  " + rulegen.canon(r) + "\n" for r in bl) + "\n", "pipeline": ["merge", "sort", "format"]} for i, bl in enumerate(blocks)]
    reps = []
    for part in pmap(lambda ch: worker.run_isolating(ctx, "aa", ch, lambda r, e: None, timeout=900), [reqs[i:i + 200] for i in range(0, len(reqs), 200)]):
        reps += part
    for bl, rep in zip(blocks, reps):
        if worker.timed_out(ctx, rep):
            continue
        if "ok" not in rep:
            continue
        dump = [x for x in rep["ok"]["rules"] if x["kind"] != "nil"]
        jobs.append(("block", [rep["ok"]["text"]], [canon_from_dump(x) for x in dump]))
    # --- rules printed from logs ----------------------------------------------------------------
    tag = 0
    batches = []
    cnt = 0
    while cnt < n_logs:
        prof = rng.choice(logsgen.PROFILES)
        chunk = []
        for _ in range(rng.randint(1, 30)):
            tag += 1
            r = logsgen.variant(rng, rng.choice(chunk), tag) if chunk and rng.random() < 0.25 else None      # same subject, another access: merges happen
            chunk.append(r or logsgen.gen_record(rng, tag, profile=prof, tame=True))
        cnt += len(chunk)
        batches.append(chunk)
    reqs = [{"id": i, "do": "new", "rules": True,
             "text": "\n".join(logsgen.render(r["fields"], framing=("dbus-syslog" if r["cls"] == "dbus" else "audit"), serial=j + 1) for j, r in enumerate(ch)) + "\n"}
            for i, ch in enumerate(batches)]
    reps = []
    for part in pmap(lambda ch: worker.run_isolating(ctx, "logs", ch, lambda r, e: None, timeout=900), [reqs[i:i + 20] for i in range(0, len(reqs), 20)]):
        reps += part
    for ch, rep in zip(batches, reps):
        if worker.timed_out(ctx, rep):
            continue
        if "ok" not in rep:
            continue
        for pn, dump in (rep["ok"].get("rules") or {}).items():
            for x in dump:
                if x["kind"] in AA3:
                    blank = any(" " in str(x["fields"].get(k) or "") and not str(x["fields"].get(k)).startswith('"')
                                for k in ("Path", "Target", "Source", "MountPoint", "OldRoot", "NewRoot"))
                    jobs.append(("log/" + (x["kind"] if not blank else "blank-in-path"), [x["text"]], [canon_from_dump(x)]))
    # --- rules generated by shipped directives ---------------------------------------------------
    b = matrix.run_build(ctx, matrix.Cfg("arch", "3", "4.0", "none", "normal"), tag="c12", tap=False)
    if b.rc == 0:
        from .c07 import shipped_directives, host_for, generated_region
        ship = [s for s in shipped_directives() if s[2] in ("dbus", "exec")]
        seen = set()
        dreqs = []
        items = []
        for (rel, line, kind, argstr) in ship:
            if (kind, argstr) in seen:
                continue
            if kind == "exec" and not all(os.path.exists(os.path.join(b.aad, n)) for n in argstr.split() if n not in ("P", "U", "p", "u", "PU", "pu")):
                continue
            seen.add((kind, argstr))
            items.append((kind, line))
            dreqs.append({"id": len(dreqs), "do": "directive", "root": b.root, "abi": 3, "version": 4.0, "file": os.path.join(b.aad, "verifhost"), "text": host_for(line)})
        dreps = worker.run_isolating(ctx, "prebuild", dreqs, lambda r, e: None, extra_env={"DISTRIBUTION": "arch"}, timeout=900)
        texts = []
        for (kind, line), rep in zip(items, dreps):
            if worker.timed_out(ctx, rep):
                continue
            if "ok" not in rep:
                continue
            region = generated_region(host_for(line), rep["ok"]["outs"][0], line)
            if region:
                texts.append((kind, line, "\n".join(region)))
        # have the library read its own expansion to obtain the fields, then render them canonically
        preqs = [{"id": i, "do": "rules", "text": t + "\n\n"} for i, (k, l, t) in enumerate(texts)]
        preps = worker.run_isolating(ctx, "aa", preqs, lambda r, e: None, timeout=900)
        for (kind, line, t), rep in zip(texts, preps):
            if worker.timed_out(ctx, rep):
                continue
            if "ok" not in rep:
                continue
            dump = [x for x in rep["ok"]["parsed"] if x["kind"] in AA3]
            incs = [x["text"] for x in rep["ok"]["parsed"] if x["kind"] == "include"]
            jobs.append(("directive/" + kind, [t], incs + [canon_from_dump(x) for x in dump]))
    # --- judge -------------------------------------------------------------------------------
    uniq = {}
    for src, lib, can in jobs:
        uniq.setdefault((tuple(lib), tuple(can)), src)
    verdicts = pmap(lambda it: (it, judge(ov, list(it[0][0]), list(it[0][1]))), list(uniq.items()))
    for ((lib, can), src), (verdict, detail) in verdicts:
        programs += 1
        differs_text = squash("\n".join(lib)) != squash("\n".join(can))
        if differs_text:
            disagreements += 1
        ctx.case(digest(*lib) if differs_text else None, {"source": src, "library": lib[0][:200], "canonical": can[0][:200] if can else ""} if differs_text else None)
        if verdict == "out-of-domain" and (src.startswith("log/") or src.startswith("directive/")) and "rejected" not in (detail or "canonical rendering rejected"):
            # the fields come from the tool itself (a well-formed record, a shipped directive): there is no invalid combination to blame
            verdict = "rejected"
        if verdict == "ok" or verdict == "out-of-domain":
            if verdict == "out-of-domain":
                ctx.extra["invalid_field_combinations"] = ctx.extra.get("invalid_field_combinations", 0) + 1
            continue
        if verdict == "inconclusive":
            ctx.inconcl("%s: %s" % (src, detail))
            continue
        cls = ""
        joined = "\n".join(lib)
        if "unix" in joined and "protocol=" in joined and "protocol" in (detail or ""):
            cls = "/unix-protocol-conditional"
        viol("C12/%s/%s%s" % (verdict, src, cls), "the library prints `%s`: %s (canonical rendering of the same fields: `%s`)" % (
            joined[:300], detail, "; ".join(can)[:300]), {"library": list(lib), "canonical": list(can)})
    for key, lst in sorted(agg.items()):
        ctx.violation(key, "%s  [%d case(s)]" % (lst[0][0][:700], len(lst)), lst[0][1])
    srcs = {s.split("/")[0] for s in uniq.values()}
    ctx.require(srcs >= {"rule", "block", "log", "directive"} and programs >= 1000, "sources judged: %s, programs %d" % (sorted(srcs), programs))
    ctx.extra.update({"programs": programs, "disagreements_checked": disagreements, "jobs": len(jobs)})
