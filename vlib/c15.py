"""C15 - aa-log reports each record's own field values, faithfully decoded."""
import re

from . import logsgen, worker
from .common import digest, pmap

GENERALISED = {"profile", "name", "target"}
DROPPED = {"pid", "peer_pid"}
SPECIAL = [" ", "=", "#", ",", "é", "ü", "日本", "a b=c", "x,y #z", "(", ")", "'", ";", "&&", "\\", "\t"]


def decorate(rng, rec, stratum):
    """Put hostile bytes into the values of a generated record according to the stratum."""
    f = list(rec["fields"])
    out = []
    for (k, v) in f:
        if stratum == "tame":
            out.append((k, v))
            continue
        if k == "name" and rng.random() < 0.8:
            sp = rng.choice(SPECIAL if stratum != "quote" else ['"', 'say "hi"', '"'])
            if sp == "\\" or sp == "\t":
                pass
            i = v.rfind("/")
            v = v[:i + 1] + "d" + sp + "r/" + v[i + 1:]
            rec = dict(rec)
            rec["marker"] = "d" + sp + "r/"
            if rng.random() < 0.25 and stratum != "quote" and not v.endswith("/"):
                # a hostile byte as the very last byte of the value (next to the closing quote of a quoted value)
                end = rng.choice(["'", "=", "#", ",", ")", "é", ";", "'x'"])
                v = v + end
                rec["marker_end"] = end
        elif k == "comm" and rng.random() < 0.5 and stratum in ("special", "quote"):
            if stratum == "special" and rng.random() < 0.3:
                v = rng.choice(["'%s'", "'%s", "%s'", "(%s)", "=%s", "#%s#"]) % v      # hostile bytes at both ends of the value
            else:
                v = v + rng.choice([" prog", "=x", "#1", "é"] if stratum == "special" else ['"q'])
        elif k == "info" and rng.random() < 0.5:
            v = v + rng.choice([" = b", " #c", ", d", "  -  twice", " (a  b)"])
        elif k in ("capname", "fstype", "signal", "info") and stratum == "hexlooking" and rng.random() < 0.5:
            v = rng.choice(["ABCDEF", "CAFE1234", "DEADBEEF", "0123"])
        elif k in ("name", "profile") and stratum == "hexlooking" and rng.random() < 0.4 and ident(rec)[0] != k:
            v = rng.choice(["ABCDEF", "CAFE1234", "BEEF"])     # hex-looking but the kernel quotes it (all bytes printable)
        out.append((k, v))
    if stratum == "hexlooking" and rng.random() < 0.5:
        # auditd-style bare fields whose key merely ends in name/comm/profile and whose value merely looks like hex
        out.append((rng.choice(["hostname", "xcomm", "subprofile"]), rng.choice(["ABCDEF", "CAFE12", "DEAD"]), "bare"))
    if stratum == "hexforce":
        out = [(k, v, "hex") if k in ("name", "comm", "profile") and rng.random() < 0.7 else (k, v) for (k, v) in out]
    if stratum != "tame" and rng.random() < 0.4:
        head, tail = out[:1], out[1:]
        rng.shuffle(tail)
        out = head + tail
    rec = dict(rec)
    rec["fields"] = out
    vals = {}
    for x in out:
        k, v = x[0], x[1]
        hexed = (len(x) > 2 and x[2] == "hex") or (k in logsgen.UNTRUSTED and logsgen.needs_hex(v))
        if hexed and k not in ("name", "comm", "profile"):
            # the statement promises decoding for name, comm and profile only: elsewhere the token is reported as written
            v = v.encode("utf-8", "surrogateescape").hex().upper()
        vals[k] = v
    rec["values"] = vals
    return rec


def ident(rec):
    """(key, value) that identifies the record in the output (survives generalisation)."""
    v = rec["values"]
    if "comm" in v:
        return ("comm", v["comm"])
    if "path" in v:
        return ("path", v["path"])
    return ("name", v.get("name"))


def run(ctx):
    ctx.build_bins()
    rng = ctx.rng
    n = 20000 if ctx.tier == "quick" else 300000
    ctx.rule = ("each generated kernel-style record (every class; values with spaces, '=', '#', ',', UTF-8, backslash; kernel hex encoding vs "
                "quoting; hex-looking quoted values; any field order) is one case: logs.New of the real library (worker; many records per call, "
                "several calls per process, a malformed record before some well-formed ones) must return for that record a map whose every key "
                "carries the record's own value, except the generalised profile/name/target and the dropped pid fields. Non-trivial = records "
                "with a hostile byte, a hex-encoded value or a shuffled field order")
    strata = ["tame"] * 2 + ["special"] * 4 + ["hexlooking"] * 2 + ["hexforce"] * 2 + ["quote"]
    recs = []
    for i in range(n):
        st = rng.choice(strata)
        r = decorate(rng, logsgen.gen_record(rng, i, tame=(st == "tame")), st)
        r["stratum"] = st
        recs.append(r)
    # batches: one logs.New call per batch of 50 records; 10 calls per process
    calls = []
    for i in range(0, len(recs), 50):
        chunk = recs[i:i + 50]
        lines = []
        for j, r in enumerate(chunk):
            if rng.random() < 0.1:
                # a malformed record (odd number of quotes) right before a well-formed one
                lines.append('type=AVC msg=audit(1700000000.1:9): apparmor="DENIED" operation="open" profile="brok" name="/tmp/unterminated pid=1 comm="x')
            lines.append(logsgen.render(r["fields"], framing=rng.choice(["audit", "syslog"]), serial=i + j + 1))
        calls.append((chunk, "\n".join(lines) + "\n"))

    def proc(batch):
        reqs = [{"id": k, "do": "new", "text": text} for k, (chunk, text) in enumerate(batch)]
        return worker.run_isolating(ctx, "logs", reqs, lambda r, e: None, timeout=600)

    groups = [calls[i:i + 10] for i in range(0, len(calls), 10)]
    agg = {}

    def viol(key, what, case):
        agg.setdefault(key, []).append((what, case))

    for batch, reps in zip(groups, pmap(proc, groups)):
        for (chunk, text), rep in zip(batch, reps):
            if worker.timed_out(ctx, rep):
                continue
            if "ok" not in rep:
                for r in chunk:
                    ctx.case(None)
                viol("C15/logs-new-fails", "logs.New failed: %s" % (rep.get("panic") or rep.get("error") or rep), {"text": text[:2000]})
                continue
            out = rep["ok"]["logs"]
            index = {}
            for m in out:
                for k in ("comm", "path", "name"):
                    if k in m:
                        index.setdefault((k, m[k]), []).append(m)
            for r in chunk:
                st = r["stratum"]
                nt = digest(repr(r["fields"])) if st != "tame" else None
                ctx.case(nt, {"line": logsgen.render(r["fields"]), "stratum": st} if nt else None)
                cand = index.get(ident(r), [])
                want = r["values"]
                cls = "/" + st if st == "quote" and any('"' in str(v) for v in want.values()) else ""
                line = logsgen.render(r["fields"])
                if len(cand) != 1:
                    # not found by its identifying value: the identifying value itself was altered, or the record was dropped
                    near = [m for m in out if m.get("operation") == want.get("operation")
                            and any(re.search(r"(?<![g-p])(c|zq|T|m|q|old|s)" + logsgen.tagstr(r["tag"]) + r"(?![g-p])", str(v)) for v in m.values())]
                    if near:
                        m = near[0]
                    else:
                        if cls:
                            viol("C15/quote-in-decoded-value", "record with a '\"' in a hex-encoded value is not reported intact: %s" % line[:300], {"line": line})
                        else:
                            # these inputs hold no duplicate and no noise path: every well-formed record must come back with its values
                            viol("C15/record-not-reported-intact/%s" % st, "no reported event carries the identifying value %r of: %s" % (ident(r), line[:400]), {"line": line})
                        continue
                else:
                    m = cand[0]
                ctx.extra["records_matched"] = ctx.extra.get("records_matched", 0) + 1
                bad = []
                for k, v in want.items():
                    if k in DROPPED:
                        continue
                    if k not in m:
                        bad.append("%s lost (was %r)" % (k, v))
                    elif m[k] != v and k not in GENERALISED:
                        bad.append("%s=%r reported as %r" % (k, v, m[k]))
                if r.get("marker") and r["marker"] not in m.get("name", "") and not cls:
                    bad.append("name: the component %r of %r is not in the reported %r" % (r["marker"], want.get("name"), m.get("name")))
                if r.get("marker_end") and not m.get("name", "").endswith(r["marker_end"]) and not cls:
                    bad.append("name: the last byte(s) %r of %r are not the end of the reported %r" % (r["marker_end"], want.get("name"), m.get("name")))
                for k in m:
                    if k not in want:
                        bad.append("foreign key %s=%r" % (k, m[k]))
                if bad:
                    if cls:
                        viol("C15/quote-in-decoded-value", "a '\"' inside a hex-encoded value scrambles the record: %s | %s" % ("; ".join(bad)[:200], line[:300]), {"line": line})
                    else:
                        kk = bad[0].split("=")[0].split(" ")[0]
                        viol("C15/value-not-faithful/%s/%s" % (st, kk if kk in ("name", "comm", "profile", "info", "target") else "other"),
                             "%s | record: %s" % ("; ".join(bad)[:300], line[:400]), {"line": line})
    for key, lst in sorted(agg.items()):
        ctx.violation(key, "%s  [%d case(s)]" % (lst[0][0][:700], len(lst)), lst[0][1])
    ctx.extra["records"] = len(recs)
    ctx.require(ctx.extra.get("records_matched", 0) >= 0.5 * len(recs) or agg, "only %d of %d records were found in the output" % (ctx.extra.get("records_matched", 0), len(recs)))

