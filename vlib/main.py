"""Entry point: python3 -m vlib.main <ID> [quick|thorough] [--replay PATH]"""
import importlib
import json
import os
import sys
import traceback

from .common import Ctx, HarnessError

LEVELS = {"C06": "translation_validation", "C10": "translation_validation", "C12": "translation_validation"}


def main(argv):
    if not argv:
        print("usage: check <ID> [quick|thorough] [--replay PATH]")
        return 2
    pid = argv[0].upper()
    tier = os.environ.get("VERIF_TIER", "quick")
    replay = None
    i = 1
    while i < len(argv):
        if argv[i] in ("quick", "thorough"):
            tier = argv[i]
        elif argv[i] == "--replay":
            replay = argv[i + 1]
            i += 1
        i += 1
    try:
        seed = int(os.environ.get("VERIF_SEED", "1"))
    except ValueError:
        seed = 1
    try:
        mod = importlib.import_module("vlib.%s" % pid.lower())
    except ImportError as e:
        print("no check for %s: %s" % (pid, e))
        return 2
    obj = None
    if replay:
        obj = json.load(open(replay))
        # a case is a function of (check, tier, seed): the recorded run is re-executed on the current tree
        seed = int(obj.get("seed", seed))
        tier = obj.get("tier", tier)
        os.environ.setdefault("VERIF_OUT_DIR", os.path.join(os.environ.get("TMPDIR", "/tmp"), "verif-replay-out"))
    ctx = Ctx(pid, tier, seed, level=LEVELS.get(pid, "exploration"))
    try:
        if replay and hasattr(mod, "replay"):
            mod.replay(ctx, obj)
        else:
            mod.run(ctx)
        if replay:
            keys = {k for k, _, _ in ctx.violations} | set(ctx.known_seen)
            print("REPLAY %s: key %s %s on the current tree" % (pid, obj.get("key"), "REPRODUCED" if obj.get("key") in keys else "not reproduced"))
        return ctx.finish()
    except HarnessError as e:
        print("HARNESS-ERROR %s: %s" % (pid, e))
        return 2
    except Exception:
        traceback.print_exc()
        print("HARNESS-ERROR %s: unexpected exception" % pid)
        return 2


if __name__ == "__main__":
    sys.exit(main(sys.argv[1:]))
