"""Race-detector stratum: the real binaries / worker rebuilt with `-race`, a slice of the check's own workload run on them,
and the detector's reports read back from GORACE log files.

The code base has no goroutine of its own today, so the stratum reports nothing on the unchanged tree; it exists for changes that
introduce concurrency (a parallel build loop, a background reader) without synchronising the package-level state the output is
computed from.  A report is a violation only when one of its stacks runs through the packages that compute output
(pkg/aa, pkg/logs, pkg/util, pkg/prebuild/..., cmd/...): unsynchronised access there makes the result depend on the schedule, which
is what C02 / C14 / C10 / C11 exclude.  Reports confined to other code (logging counters, ...) are counted as inconclusive notes."""
import glob
import os
import re
import shutil

from .common import REPO, VERIF, HarnessError, env, sh

OUTPUT_PKGS = re.compile(r"roddhjav/apparmor\.d/(pkg/(aa|logs|util|prebuild)|cmd)[/.]")


def build(ctx, worker=False):
    """Build prebuild, aa-log (and the worker) with -race into <scratch>/bin-race. Returns the directory."""
    d = os.path.join(ctx.scratch, "bin-race")
    if os.path.isdir(d):
        return d
    os.makedirs(d)
    rc, out, err = sh(["go", "build", "-race", "-tags", "verif", "-o", d + "/", "./cmd/prebuild", "./cmd/aa-log"], cwd=REPO, timeout=1800)
    if rc != 0:
        raise HarnessError("cannot build /repo with -race:\n" + out + err)
    if worker:
        wdir = os.path.join(VERIF, "worker")
        args = ["go", "build", "-race", "-tags", "verif", "-o", d + "/vworker"]
        if os.path.realpath(REPO) != "/repo":
            mf = os.path.join(ctx.scratch, "worker-race.mod")
            txt = open(os.path.join(wdir, "go.mod")).read().replace("=> /repo", "=> " + os.path.realpath(REPO))
            open(mf, "w").write(txt)
            shutil.copy(os.path.join(REPO, "go.sum"), os.path.join(ctx.scratch, "worker-race.sum"))
            args.append("-modfile=" + mf)
        rc, out, err = sh(args + ["."], cwd=wdir, timeout=1800, env_=env(GOFLAGS="-mod=mod"))
        if rc != 0:
            raise HarnessError("cannot build the worker with -race:\n" + out + err)
    return d


def logdir(ctx, name):
    d = os.path.join(ctx.scratch, "race-logs", name)
    os.makedirs(d, exist_ok=True)
    return d


def gorace(d):
    """Environment value: keep running after a report, one log file per process."""
    return "halt_on_error=0 log_path=%s/r" % d


def reports(d):
    """[(signature, text)] of the distinct reports found under d (deduplicated by the function names of both stacks)."""
    res = {}
    for p in glob.glob(os.path.join(d, "r.*")):
        try:
            txt = open(p, errors="replace").read()
        except OSError:
            continue
        for block in txt.split("WARNING: DATA RACE")[1:]:
            block = block.split("==================")[0]
            funcs = re.findall(r"^\s{2}(\S+)\(.*\)\s*$", block, re.M)
            sig = "|".join(funcs[:6])
            res.setdefault(sig, block.strip()[:3000])
    return sorted(res.items())


def judge(ctx, prop, d, what, processes):
    """Turn the reports of one stratum into verdicts. Returns the number of distinct reports."""
    reps = reports(d)
    ctx.extra.setdefault("race_detector", {})[what] = {"processes_run": processes, "distinct_reports": len(reps)}
    for sig, block in reps:
        files = re.findall(r"^\s+(/\S+\.go):\d+", block, re.M)
        if any(OUTPUT_PKGS.search(f) for f in files) or OUTPUT_PKGS.search(block):
            names = [x.rsplit("/", 1)[-1] for x in sig.split("|")[:2]]
            ctx.violation("%s/data-race/%s" % (prop, "+".join(names)[:80]),
                          "the race detector reports unsynchronised access in code that computes the output (%s): the result depends on "
                          "the schedule\n%s" % (what, block[:1200]), {"stratum": what, "report": block})
        else:
            ctx.inconcl("race report outside the output-computing packages (%s): %s" % (what, sig[:200]))
    return len(reps)
