"""C01 - every built policy file loads in the reference AppArmor parser, in every configuration."""
import os
import re
import shutil

from . import matrix, refparser
from .common import REPO, HarnessError, digest, pmap


RE_EXEC_RULE = re.compile(r"^\s*[^#\n]*\s[rwmlk]*(?:[pPcC][uU]?|[uU])x\s*(?:->|,)", re.M)
RE_INC = re.compile(r"^\s*include\s+(?:if exists\s+)?<(abstractions/[^>]+)>", re.M)


def exec_abstraction_users(aad, profs):
    holders = set()
    base = os.path.join(aad, "abstractions")
    for dp, dns, fns in os.walk(base):
        for fn in fns:
            p = os.path.join(dp, fn)
            try:
                if RE_EXEC_RULE.search(matrix.read(p)):
                    rel = os.path.relpath(p, aad)
                    holders.add(rel)
                    # foo.d/bar is pulled in by foo
                    if ".d/" in rel:
                        holders.add(rel.split(".d/")[0])
            except OSError:
                pass
    out = set()
    for pr in profs:
        t = matrix.read(os.path.join(aad, pr))
        if any(m in holders for m in RE_INC.findall(t)) and RE_EXEC_RULE.search(t):
            out.add(pr)
    return out


def check_build(ctx, b, cache, compile_=False, dedup=True, only=None):
    """Parse every top-level profile of one build over its overlay. Returns list of
    (file, errclass, text)."""
    cfg = b.cfg
    ov = os.path.join(ctx.scratch, "ov", cfg.id)
    nset = refparser.make_overlay(ov, b.aad, cfg.ver, cfg.abi)
    ctx.extra["set_aside_statements"] = ctx.extra.get("set_aside_statements", 0) + nset
    profs = matrix.top_profiles(b.aad) if only is None else list(only)
    td = refparser.tree_digest(ov)
    jobs = []
    results = {}
    for n in profs:
        p = os.path.join(ov, n)
        key = digest(open(p, "rb").read(), td, "c" if compile_ else "d")
        if dedup and key in cache:
            results[n] = cache[key]
            ctx.extra["dedup_hits"] = ctx.extra.get("dedup_hits", 0) + 1
        else:
            jobs.append((n, p, key))

    def one(j):
        n, p, key = j
        return n, key, refparser.parse_file(ov, p, compile_=compile_)

    for n, key, r in pmap(one, jobs):
        cache[key] = r
        results[n] = r
    ctx.extra["parser_runs"] = ctx.extra.get("parser_runs", 0) + len(jobs)
    # abstractions / tunables / mappings of the build: reached through some profile?
    reached = refparser.include_closure(ov, [os.path.join(ov, n) for n in profs])
    stubs = []
    for sub in (("abstractions", "tunables", "mappings") if only is None else ()):
        base = os.path.join(b.aad, sub)
        for dp, dns, fns in os.walk(base):
            for fn in fns:
                rel = os.path.relpath(os.path.join(dp, fn), b.aad)
                if rel not in reached:
                    stubs.append(rel)
    sdir = os.path.join(ov, ".stubs")
    os.makedirs(sdir, exist_ok=True)

    def stub(rel):
        sp = os.path.join(sdir, rel.replace("/", "_"))
        if rel.startswith("tunables/"):
            txt = "include <tunables/global>\ninclude <%s>\nprofile verif_stub { }\n" % rel
        else:
            txt = "include <tunables/global>\nprofile verif_stub {\n  include <%s>\n}\n" % rel
        with open(sp, "w") as f:
            f.write(txt)
        return rel, refparser.parse_file(ov, sp, compile_=compile_)

    for rel, (cls, text) in pmap(stub, stubs):
        # A file no profile of this build includes: the statement speaks of abstractions, tunables and
        # mappings "through the profiles that include them", so a stand-alone rejection (typically a
        # variable the including profile is meant to define) is recorded, not judged.
        ctx.case(None)
        if cls is not None:
            orphan = ctx.extra.setdefault("orphans_rejected_standalone", {})
            orphan.setdefault(rel, cls)
    ctx.extra["stub_parsed"] = ctx.extra.get("stub_parsed", 0) + len(stubs)
    shutil.rmtree(ov, ignore_errors=True)
    fails = []
    for n, (cls, text) in sorted(results.items()):
        nontriv = None
        if cfg.abi == "4" or cfg.mode != "none" or cfg.full == "full":
            nontriv = digest(n, cfg.id)
        ctx.case(nontriv)
        if cls == "timeout":
            ctx.inconcl("parser timeout on %s in %s" % (n, cfg.id))
        elif cls is not None:
            fails.append((n, cls, text))
    return fails, len(results)


def run(ctx):
    refparser.require()
    ctx.build_bins(worker=False)
    if ctx.tier == "thorough":
        cfgs = matrix.all_cfgs()
        ctx.exhaustive = True
    else:
        cfgs = matrix.covering(ctx.rng, extra=4)
    ctx.rule = ("every file of the output policy directory of every chosen configuration is one case "
                "(top-level profiles parsed directly by apparmor_parser -Q -K -d over an overlay of /etc/apparmor.d "
                "+ build output; abstractions/tunables/mappings not reached by any profile's include closure parsed "
                "through a stub); non-trivial = (file, configuration) with ABI 4, a mode option or --full, i.e. where "
                "a builder beyond the defaults rewrote the file; thorough additionally full-compiles every distinct file")
    ctx.assumptions += ["A1 " + refparser.parser_id() + " with /etc/apparmor.d is the reference parser",
                        "A2 upstream AppArmor 4.1 ships the four stand-in files with the source tree's content",
                        "A3 abi/4.0 stood in by abi/3.0 (feature pinning is irrelevant with -Q)",
                        "ABI 4 targets: userns/mqueue/io_uring/all statements set aside by the harness scanner"]
    builds, bad = matrix.build_many(ctx, cfgs, tap=False)
    for b in bad:
        ctx.violation("C01/build-failed/%s" % b.cfg.id, "prebuild exited %s for %s: %s" % (b.rc, b.cfg.id, b.log[-400:]),
                      {"cfg": b.cfg.id})
    cache = {}
    agg = {}
    nfiles = 0
    for b in builds:
        if b.rc != 0:
            continue
        fails, n = check_build(ctx, b, cache, compile_=False, dedup=(ctx.tier != "thorough"))
        nfiles += n
        for fn, cls, text in fails:
            agg.setdefault((fn, cls), []).append((b.cfg.id, text))
    if ctx.tier != "thorough":
        # quick: full compile (DFA construction, merged-rule x conflicts) of a sample per configuration: every profile that
        # only exists in full-system-policy builds plus seed-drawn others; the thorough tier compiles everything
        full_only = set(os.listdir(os.path.join(REPO, "apparmor.d", "groups", "_full"))) if os.path.isdir(
            os.path.join(REPO, "apparmor.d", "groups", "_full")) else set()
        ccache = {}
        ncomp = 0
        for b in builds:
            if b.rc != 0:
                continue
            profs = matrix.top_profiles(b.aad)
            # profiles that include an abstraction with exec-transition rules: the only place where two rules written in
            # different files can end up with conflicting x modifiers on overlapping globs (which only the DFA build sees)
            risky = exec_abstraction_users(b.aad, profs)
            ctx.extra["profiles_including_exec_abstractions"] = max(ctx.extra.get("profiles_including_exec_abstractions", 0), len(risky))
            pick = sorted(set(p for p in profs if p in full_only) | set(ctx.rng.sample(profs, min(12, len(profs)))) | risky)
            fails, n = check_build(ctx, b, ccache, compile_=True, dedup=True, only=pick)
            ncomp += n
            for fn, cls, text in fails:
                agg.setdefault((fn, "compile-" + cls), []).append((b.cfg.id, text))
        ctx.extra["sampled_full_compiles"] = ncomp
    if ctx.tier == "thorough":
        # full compile (DFA construction) of every distinct (file bytes, include tree)
        ccache = {}
        for b in builds:
            if b.rc != 0:
                continue
            fails, n = check_build(ctx, b, ccache, compile_=True, dedup=True)
            for fn, cls, text in fails:
                agg.setdefault((fn, "compile-" + cls), []).append((b.cfg.id, text))
        ctx.extra["distinct_compiles"] = len(ccache)
    for b in builds:
        shutil.rmtree(b.root, ignore_errors=True)
    for (fn, cls), lst in sorted(agg.items()):
        cfgids = sorted(c for c, _ in lst)
        ctx.violation("C01/%s/%s" % (cls, fn),
                      "%s rejected by the reference parser (%s) in %d configuration(s), e.g. %s: %s" % (
                          fn, cls, len(cfgids), cfgids[0], lst[0][1].replace("\n", " | ")[:300]),
                      {"file": fn, "class": cls, "configs": cfgids})
    ctx.require(nfiles >= 1000 * len([b for b in builds if b.rc == 0]), "only %d files parsed for %d builds" % (nfiles, len(builds)))
    ctx.extra["configurations"] = len(cfgs)
    ctx.extra["files_checked"] = nfiles
    ctx.samples = [{"cfg": c.id} for c in cfgs[:3]] + [{"failure": k[0], "class": k[1]} for k in list(agg)[:3]]


def replay(ctx, obj):
    case = obj.get("case") or {}
    cfgids = case.get("configs") or ([case["cfg"]] if "cfg" in case else [])
    refparser.require()
    ctx.build_bins(worker=False)
    cfgs = [matrix.Cfg.parse(c) for c in cfgids[:3]]
    builds, bad = matrix.build_many(ctx, cfgs, tap=False)
    cache = {}
    for b in builds:
        fails, n = check_build(ctx, b, cache)
        for fn, cls, text in fails:
            ctx.violation("C01/%s/%s" % (cls, fn), "%s: %s" % (b.cfg.id, text), {"file": fn, "configs": [b.cfg.id]})
