"""C10 - merging rules never changes what the rules grant or deny."""
import itertools
import re

from . import dfa, refparser, rulegen, worker
from .c09 import calibrate, source_overlay, stub
from .c11 import near_duplicate, outside_pair, padded_pair, slash_pair, strip_comment
from .common import digest, pmap

TOP = "<all>"


def facts(kind, f):
    """Independent denotation: the set of atomic (qualifier, subject, permission) facts of one rule dump."""
    g = lambda k: f.get(k) or ""
    q = ("audit" if f.get("Audit") else "", f.get("AccessType") or "")
    L = lambda k: list(f.get(k) or [])
    if kind == "file":
        return {("file", q, bool(f.get("Owner")), g("Path"), g("Target"), a) for a in L("Access")} or {("file", q, bool(f.get("Owner")), g("Path"), g("Target"), "")}
    if kind == "link":
        return {("link", q, bool(f.get("Owner")), bool(f.get("Subset")), g("Path"), g("Target"))}
    if kind == "capability":
        return {("capability", q, n) for n in L("Names")} or {("capability", q, TOP)}
    if kind == "network":
        return {("network", q, g("Domain"), g("Type"), g("Protocol"))}
    if kind in ("mount", "remount", "umount"):
        return {(kind, q, g("FsType"), frozenset(L("Options")), g("Source"), g("MountPoint"))}
    if kind == "pivot_root":
        return {("pivot_root", q, g("OldRoot"), g("NewRoot"), g("TargetProfile"))}
    if kind == "change_profile":
        return {("change_profile", q, g("ExecMode"), g("Exec"), g("ProfileName"))}
    if kind == "signal":
        return {("signal", q, g("Peer"), a, s) for a in (L("Access") or ["send", "receive"]) for s in (L("Set") or [TOP])}
    if kind == "ptrace":
        return {("ptrace", q, g("Peer"), a) for a in (L("Access") or ["read", "readby", "trace", "tracedby"])}
    if kind == "unix":
        subj = (g("Type"), g("Protocol"), g("Address"), g("Label"), g("Attr"), g("Opt"), g("PeerLabel"), g("PeerAddr"))
        peer = bool(g("PeerLabel") or g("PeerAddr"))
        every = [a for a in rulegen.UNIX_ACC if not (peer and a in rulegen.UNIX_LOCAL)]
        return {("unix", q, subj, a) for a in (L("Access") or every)}
    if kind == "dbus":
        subj = (g("Bus"), g("Name"), g("Path"), g("Interface"), g("Member"), g("PeerName"), g("PeerLabel"))
        if g("Path") or g("Interface") or g("Member") or g("PeerName") or g("PeerLabel"):
            every = ["send", "receive"]            # message rules
        elif g("Name"):
            every = ["bind"]                        # service rules
        else:
            every = ["send", "receive", "bind", "eavesdrop"]
        return {("dbus", q, subj, a) for a in (L("Access") or every)}
    if kind == "rlimit":
        return {("rlimit", g("Key"), g("Op"), g("Value"))}
    if kind == "userns":
        return {("userns", q, bool(f.get("Create")))}
    if kind == "mqueue":
        return {("mqueue", q, g("Type"), g("Label"), g("Name"), a) for a in (L("Access") or [TOP])}
    if kind == "io_uring":
        return {("io_uring", q, g("Label"), a) for a in (L("Access") or [TOP])}
    if kind == "all":
        return {("all",)}
    if kind == "include":
        return {("include", bool(f.get("IfExists")), g("Path"), bool(f.get("IsMagic")))}
    if kind == "comment":
        return set()
    return {(kind, repr(sorted(f.items())))}


def normalise(fs):
    """<all> in a set-valued position subsumes the listed values of the same subject."""
    out = set(fs)
    for t in list(fs):
        if t[0] == "signal":
            _, q, peer, a, s = t
            if a != TOP and ("signal", q, peer, TOP, s) in fs or s != TOP and ("signal", q, peer, a, TOP) in fs or (a != TOP or s != TOP) and ("signal", q, peer, TOP, TOP) in fs:
                out.discard(t)
        elif t[0] in ("ptrace",):
            if t[-1] != TOP and t[:-1] + (TOP,) in fs:
                out.discard(t)
        elif t[0] in ("unix", "dbus", "mqueue", "io_uring"):
            if t[-1] != TOP and t[:-1] + (TOP,) in fs:
                out.discard(t)
    return out


def denote(dump):
    fs = set()
    for r in dump:
        if r["kind"] == "nil" or not isinstance(r.get("fields"), dict):
            continue
        fs |= facts(r["kind"], r["fields"])
    return normalise(fs)


def run(ctx):
    refparser.require()
    ctx.build_bins()
    rng = ctx.rng
    n_lists = 3000 if ctx.tier == "quick" else 120000
    ctx.rule = ("each list of 2-12 valid rules (every order for n<=3 of the near-duplicate strata: pairs differing only in letter case, one "
                "byte, one field, the qualifier or `owner`; empty vs non-empty set fields; dense lists over 2-3 subjects and 3-4 access lists) is one program pair L / Merge(L): an independent "
                "denotation (atomic facts, byte-exact) must be equal, Merge must be idempotent, and for lists of AppArmor-3 kinds both texts "
                "are compiled by apparmor_parser -S (equal bytes => equal; otherwise automata equivalence + capability/network/rlimit dump "
                "lines). Non-trivial = lists that Merge changed")
    ov = source_overlay(ctx)
    pool_n = 2500 if ctx.tier == "quick" else 15000
    pool = [strip_comment(rulegen.gen_rule(rng)) for _ in range(pool_n)]
    pool = [r for r in pool if not any("=" in str(r.get(k, "")) for k in ("Path", "Target", "Source", "MountPoint", "OldRoot", "NewRoot", "Exec"))]
    pool, ood = calibrate(ctx, pool, ov)
    ctx.extra["out_of_domain_rules"] = ood
    bykind = {}
    for r in pool:
        bykind.setdefault(r["kind"], []).append(r)
    lists = []
    for i in range(n_lists):
        stratum = rng.choice(["random", "same-kind", "near-duplicate", "near-duplicate", "same-subject", "same-subject", "signal-grid", "dense", "dense"])
        if stratum == "dense":
            # few subjects, few access lists, many rules: every access list is written several times in the same spelling and most
            # rules have a partner to merge with next to bystanders that must stay as they are (state shared between rule objects,
            # e.g. a common backing array of equal access lists, shows as a bystander that changes)
            kind = rng.choice(["file", "file", "file", "signal", "ptrace", "unix", "dbus", "mqueue", "mounts", "mounts"])
            if kind == "mounts":
                # umount / remount rules over two or three mount points and a few option lists (same fstype): an option list
                # must stay with its own mount point
                mk = rng.choice(["umount", "remount"])
                q = rulegen.qual(rng) if rng.random() < 0.3 else {"Audit": False, "AccessType": ""}
                points = rng.sample(["/mnt/a/", "/mnt/b/", "/boot/", "/run/media/*/", "/"], 3)
                opts = rng.sample([[], ["ro"], ["rw", "nosuid"], ["bind"], ["ro", "bind", "nosuid"], ["noexec"]], 3)
                fst = rng.choice(["", "", "ext4"])
                lst = []
                for _k in range(rng.randint(3, 6)):
                    r = {"kind": mk, "Comment": "", "FsType": fst, "Options": list(rng.choice(opts)), "MountPoint": rng.choice(points)}
                    r.update(q)
                    lst.append(r)
                lists.append((stratum, lst))
                continue
            if kind == "file":
                q = rulegen.qual(rng) if rng.random() < 0.3 else {"Audit": False, "AccessType": ""}
                paths = rng.sample(["/var/lib/app/lock", "/var/lib/app/db", "@{run}/app.pid", "/etc/app.conf", "@{HOME}/.cache/app/**"], 3)
                accs = rng.sample([["r", "w", "k"], ["r", "w"], ["m"], ["r"], ["w", "k"], ["m", "r"], ["r", "w", "l", "k"], ["l"], ["w"]], 4)
                lst = []
                for _k in range(rng.randint(4, 9)):
                    r = {"kind": "file", "Comment": "", "Owner": rng.random() < 0.3, "Target": "", "Path": rng.choice(paths), "Access": list(rng.choice(accs))}
                    r.update(q)
                    lst.append(r)
            else:
                import copy
                cands = [r for r in bykind.get(kind, []) if not (kind == "dbus" and "bind" in r.get("Access", []))]
                if len(cands) < 2:
                    cands = pool
                bases = [rng.choice(cands) for _ in range(2)]
                vals = {"signal": ["send", "receive"], "ptrace": rulegen.PTRACE, "unix": ["send", "receive", "connect"], "dbus": ["send", "receive"],
                        "mqueue": rulegen.MQ_ACC}.get(kind, [])
                accs = [rulegen.subset(rng, vals, 1, 2) for _ in range(3)] if vals else []
                lst = []
                for _k in range(rng.randint(4, 8)):
                    b = copy.deepcopy(rng.choice(bases))
                    if accs and "Access" in b:
                        b["Access"] = list(rng.choice(accs))
                    lst.append(b)
        elif stratum == "signal-grid":
            # the one kind with two set-valued fields: rules on one peer from a small grid of accesses x signal sets, in any order
            q = rulegen.qual(rng)
            peer = rng.choice(rulegen.PEERS[:4])
            lst = []
            for _k in range(rng.randint(3, 5)):
                r = {"kind": "signal", "Comment": "", "Peer": peer}
                r.update(q)
                r["Access"] = rng.choice([["send"], ["receive"], ["send", "receive"]])
                r["Set"] = rng.choice([["kill"], ["term"], ["kill", "term"], ["hup"]])
                lst.append(r)
        elif stratum == "random":
            lst = [rng.choice(pool) for _ in range(rng.randint(2, 12))]
        elif stratum == "same-kind":
            k = rng.choice(list(bykind))
            lst = [rng.choice(bykind[k]) for _ in range(rng.randint(2, 8))]
        elif stratum == "near-duplicate":
            a = rng.choice(pool)
            b = near_duplicate(rng, a) or rng.choice(pool)
            x_ = rng.random()
            if x_ < 0.4:
                ab = outside_pair(rng, a) if x_ < 0.15 else (padded_pair(rng, a) if x_ < 0.28 else slash_pair(rng, a))
                if ab:
                    a, b = ab
            lst = [a, b] + [rng.choice(pool) for _ in range(rng.randint(0, 2))]
            rng.shuffle(lst)
        else:
            # same subject, different set fields (incl. empty = all)
            a = rng.choice([r for r in pool if r["kind"] in ("signal", "ptrace", "unix", "dbus", "file", "capability", "mount", "mqueue", "io_uring")])
            import copy
            variants = [a]
            for _v in range(rng.randint(1, 3)):
              b = copy.deepcopy(a)
              for fld, vals in (("Access", None), ("Set", rulegen.SIGNALS[:4]), ("Names", rulegen.CAPS), ("Options", rulegen.MOPTS)):
                if fld in b:
                    if fld == "Access":
                        vals = {"signal": ["send", "receive"], "ptrace": rulegen.PTRACE, "unix": ["send", "receive", "connect"], "dbus": ["send", "receive"],
                                "file": ["r", "w", "k", "l", "m"], "mqueue": rulegen.MQ_ACC, "io_uring": ["sqpoll", "override_creds"]}[b["kind"]]
                    if b["kind"] == "dbus" and "bind" in b["Access"]:
                        continue
                    b[fld] = rulegen.subset(rng, vals, 0 if b["kind"] not in ("file", "capability", "mqueue", "io_uring") else 1, 2)
              if b["kind"] == "file":
                # keep the exec transition (and with it the target) of the original so that the rule stays valid
                tr = [x for x in a["Access"] if x not in ("m", "r", "w", "l", "k")]
                b["Access"] = b["Access"] + tr
              variants.append(b)
            lst = variants
            rng.shuffle(lst)
        lists.append((stratum, lst))
    agg = {}

    def viol(key, what, case):
        agg.setdefault(key, []).append((what, case))

    def chunk_run(chunk):
        reqs = [{"id": i, "do": "rules", "text": "".join("  " + rulegen.canon(r) + "\n" for r in lst) + "\n",
                 "pipeline": ["merge", "merge"], "stages": True} for i, (st, lst) in enumerate(chunk)]
        return worker.run_isolating(ctx, "aa", reqs, lambda r, e: None, timeout=900)

    chunks = [lists[i:i + 500] for i in range(0, len(lists), 500)]
    reps = []
    for part in pmap(chunk_run, chunks):
        reps += part
    # a slice of the same Merge calls in a worker built with the race detector
    from . import race
    rb = race.build(ctx, worker=True)
    rl = race.logdir(ctx, "worker")
    n_rl = 500 if ctx.tier == "quick" else 10000
    rreqs = [{"id": i, "do": "rules", "text": "".join("  " + rulegen.canon(r) + "\n" for r in lst) + "\n", "pipeline": ["merge", "merge"], "stages": True}
             for i, (st, lst) in enumerate(lists[:n_rl])]
    rreps = worker.run_isolating(ctx, "aa", rreqs, lambda r, e: None, timeout=1800, bindir=rb, extra_env={"GORACE": race.gorace(rl)})
    for (st, lst), rep, rr in zip(lists[:n_rl], reps[:n_rl], rreps):
        if "ok" in rep and "ok" in rr and rep["ok"]["stages"][0]["text"] != rr["ok"]["stages"][0]["text"]:
            viol("C10/merge-differs-under-race-detector", "the same Merge call gives another result in the worker built with -race: %s" % [rulegen.canon(r) for r in lst][:4],
                 {"list": [rulegen.canon(r) for r in lst]})
    race.judge(ctx, "C10", rl, "worker, %d Merge calls" % len(rreqs), 1)
    programs = 0
    disagreements = 0
    todo = []
    for (stratum, lst), rep in zip(lists, reps):
        texts = [rulegen.canon(r) for r in lst]
        if worker.timed_out(ctx, rep):
            continue
        if "ok" not in rep:
            ctx.case(None)
            msg = str(rep.get("error") or rep.get("panic") or rep)
            if rep.get("panic") or rep.get("died"):
                viol("C10/merge-panics/%s" % stratum, "Merge panicked on %s: %s" % (texts[:4], msg[:200]), {"list": texts})
            continue
        ok = rep["ok"]
        if len(ok["parsed"]) != len(lst):
            ctx.case(None)
            continue     # parse problem: C09's business
        m1, m2 = ok["stages"][0], ok["stages"][1]
        changed = len(m1["rules"]) != len(ok["parsed"]) or [r["text"] for r in m1["rules"]] != [r["text"] for r in ok["parsed"]]
        ctx.case(digest(*texts) if changed else None, {"list": texts, "merged": [r["text"] for r in m1["rules"]]} if changed else None)
        kinds = sorted({r["kind"] for r in lst})
        d0 = denote(ok["parsed"])
        d1 = denote(m1["rules"])
        den_equal = d0 == d1
        if m1["text"] != m2["text"]:
            viol("C10/not-idempotent/%s" % "+".join(kinds)[:50], "Merge(Merge(L)) != Merge(L) for %s" % texts[:5], {"list": texts})
        aa3 = all(r["kind"] in rulegen.AA3_KINDS for r in lst)
        todo.append((stratum, lst, texts, ok, m1, den_equal, d0, d1, aa3, changed))

    def judge(item):
        stratum, lst, texts, ok, m1, den_equal, d0, d1, aa3, changed = item
        if not aa3 or not changed:
            return item, None
        a = stub([r["text"] for r in ok["parsed"]])
        b = stub([r["text"] for r in m1["rules"]])
        return item, compare_policies(a, b, ov)

    for item, pv in pmap(judge, todo):
        stratum, lst, texts, ok, m1, den_equal, d0, d1, aa3, changed = item
        kinds = sorted({r["kind"] for r in lst})
        if pv is not None:
            programs += 1
            if pv[0] in ("differ", "equal-by-automata"):
                disagreements += 1
        verdict = None
        if pv is None:
            verdict = "equal" if den_equal else "differ"
            detail = diff_facts(d0, d1)
        elif pv[0] == "reject-a":
            continue       # the list itself is not loadable policy (e.g. conflicting exec modes): out of domain
        elif pv[0] == "reject-b":
            verdict, detail = "differ", "the merged list is rejected by the reference parser: %s" % pv[1]
        elif pv[0] == "inconclusive":
            ctx.inconcl("parser comparison inconclusive: %s" % pv[1])
            verdict = "equal" if den_equal else "differ"
            detail = diff_facts(d0, d1)
        else:
            parser_equal = pv[0] in ("equal", "equal-by-automata")
            if parser_equal != den_equal:
                ctx.inconcl("ORACLE-DISAGREEMENT denotation=%s parser=%s on %s -> %s (%s)" % (
                    den_equal, pv, texts[:4], [r["text"] for r in m1["rules"]][:4], diff_facts(d0, d1)))
                ctx.extra["oracle_disagreements"] = ctx.extra.get("oracle_disagreements", 0) + 1
                continue
            verdict = "equal" if den_equal else "differ"
            detail = diff_facts(d0, d1) + (" | parser: %s" % (pv[1] or "")) if not den_equal else ""
        if verdict == "differ":
            cls = classify(d0, d1, ok["parsed"])
            viol("C10/meaning-changed/%s" % cls, "Merge changed the meaning of %s -> %s: %s" % (
                texts[:6], [r["text"] for r in m1["rules"]][:6], detail[:400]), {"list": texts})
    for key, lst in sorted(agg.items()):
        ctx.violation(key, "%s  [%d case(s)]" % (lst[0][0][:700], len(lst)), lst[0][1])
    ctx.require(programs >= 0.1 * len(lists), "only %d of %d lists reached the reference parser" % (programs, len(lists)))
    ctx.extra.update({"lists": len(lists), "programs": programs, "disagreements_checked": disagreements})


def diff_facts(d0, d1):
    lost = sorted(map(repr, d0 - d1))[:3]
    gained = sorted(map(repr, d1 - d0))[:3]
    return "facts lost %s gained %s" % (lost, gained)


def classify(d0, d1, lst):
    """Input/outcome class for finding keys: the kind of the facts that changed and how."""
    lost, gained = d0 - d1, d1 - d0
    kinds = sorted({t[0] for t in lost | gained})
    k = "+".join(kinds)[:40]
    if kinds and all(kk in ("mount", "remount", "umount") for kk in kinds):
        # the recorded defect needs two rules of the same subject (qualifier, fstype, source, mount point) with different option lists
        subj = {}
        for x in lst:
            f = x.get("fields") if isinstance(x.get("fields"), dict) else None
            if f is None or x["kind"] not in kinds:
                continue
            key = (x["kind"], bool(f.get("Audit")), f.get("AccessType") or "", f.get("FsType") or "", f.get("Source") or "", f.get("MountPoint") or "")
            subj.setdefault(key, set()).add(tuple(sorted(f.get("Options") or [])))
        changed_subjects = {(t[0], t[1][0] == "audit", t[1][1], t[2], t[4], t[5]) for t in lost | gained}
        if all(len(subj.get(cs, ())) > 1 for cs in changed_subjects):
            return k + "/options-set-changed"
        return k + "/options-changed-without-a-same-subject-rule"
    if any(t[-1] == TOP or (t[0] == "signal" and TOP in t) for t in lost):
        return k + "/all-narrowed-to-listed"
    if lost and not gained:
        return k + "/facts-lost"
    if gained and not lost:
        return k + "/facts-gained"
    return k + "/facts-moved"


RE_CAPS = re.compile(r"^(Capabilities|Network|Rlimit|quiet|audit|deny).*", re.M)


def compare_policies(a, b, ov):
    r1 = compare_policies_once(a, b, ov)
    if r1[0] not in ("equal", "equal-by-automata") or "deny " not in a:
        return r1
    # deny rules only subtract from what is allowed: compile again under blanket allow rules so that they show
    blanket = "\n".join("  " + x for x in ("file,", "capability,", "network,", "mount,", "remount,", "umount,", "pivot_root,", "change_profile,",
                                            "signal,", "ptrace,", "unix,", "dbus,", "link /** -> /**,"))
    a2 = a.replace("profile verif_stub {\n", "profile verif_stub {\n" + blanket + "\n", 1)
    b2 = b.replace("profile verif_stub {\n", "profile verif_stub {\n" + blanket + "\n", 1)
    r2 = compare_policies_once(a2, b2, ov)
    if r2[0] in ("reject-a", "reject-b"):
        return r1
    return r2 if r2[0] not in ("equal", "equal-by-automata") else r1


def compare_policies_once(a, b, ov):
    rca, ba, ea = refparser.compile_bytes(a, ov=ov, abi=True)
    if rca is None:
        return ("inconclusive", "timeout")
    if rca != 0:
        return ("reject-a", "")
    rcb, bb, eb = refparser.compile_bytes(b, ov=ov, abi=True)
    if rcb is None:
        return ("inconclusive", "timeout")
    if rcb != 0:
        return ("reject-b", " ".join(l for l in eb.split("\n") if l and not l.startswith("Cache"))[-200:])
    if ba == bb:
        return ("equal", None)
    _, da = refparser.dfa_dump(a, ov=ov, abi=True)
    _, db = refparser.dfa_dump(b, ov=ov, abi=True)
    A, B = dfa.parse_dump(da), dfa.parse_dump(db)
    if len(A) != len(B):
        return ("differ", "different number of automata (%d vs %d)" % (len(A), len(B)))
    for x, y in zip(A, B):
        if not (x.clean and y.clean):
            return ("inconclusive", "dump not parseable unambiguously")
        eq, w = dfa.equivalent(x, y)
        if eq is None:
            return ("inconclusive", "automata too large")
        if not eq:
            return ("differ", "automata differ on %r" % w.decode("latin-1"))
    # same automata but different bytes: capability / network / rlimit sets
    _, sa, _ = refparser.dump_struct(a, ov=ov)
    _, sb, _ = refparser.dump_struct(b, ov=ov)
    la = sorted(l for l in sa.split("\n") if re.match(r"^(Capabilities|Network|Rlimit|Quiet|Audit|Deny)", l.strip(), re.I))
    lb = sorted(l for l in sb.split("\n") if re.match(r"^(Capabilities|Network|Rlimit|Quiet|Audit|Deny)", l.strip(), re.I))
    if la != lb:
        return ("differ", "dump lines differ: %s vs %s" % (la[:2], lb[:2]))
    return ("equal-by-automata", None)
