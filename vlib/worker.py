"""Client for the in-process Go worker (one child process per batch or per sequence)."""
import json
import os
import subprocess

from .common import HarnessError, env


class WorkerDied(Exception):
    def __init__(self, done, stderr, rc):
        self.done = done
        self.stderr = stderr
        self.rc = rc


def run_batch(ctx, op, reqs, extra_env=None, timeout=300, vmem_kb=4 << 20, cpu_s=None, bindir=None):
    """Send all requests to one fresh worker process; returns list of replies (dicts).
    If the worker dies or is killed, raises WorkerDied(number of replies received, stderr, rc)."""
    payload = "".join(json.dumps(r, ensure_ascii=False) + "\n" for r in reqs).encode("utf-8", "surrogateescape")
    e = env(**(extra_env or {}))
    lim = ("ulimit -v %d; " % vmem_kb) if not bindir else ""      # (the race detector reserves far more address space than it uses)
    if cpu_s:
        lim += "ulimit -t %d; " % cpu_s
    cmd = ["bash", "-c", lim + 'exec "$0" "$1"', os.path.join(bindir or ctx.bins, "vworker"), op]
    import signal
    p = subprocess.Popen(cmd, stdin=subprocess.PIPE, stdout=subprocess.PIPE, stderr=subprocess.PIPE, env=e, start_new_session=True)
    try:
        out, err = p.communicate(input=payload, timeout=timeout)
        rc = p.returncode
    except subprocess.TimeoutExpired:
        try:
            os.killpg(p.pid, signal.SIGKILL)
        except OSError:
            pass
        try:
            out, err = p.communicate(timeout=10)
        except Exception:
            out, err = b"", b""
        rc, err = -9, (err or b"") + b"\nTIMEOUT"
    replies = []
    for line in out.split(b"\n"):
        if not line.strip():
            continue
        try:
            replies.append(json.loads(line))
        except ValueError:
            break
    if len(replies) != len(reqs):
        raise WorkerDied(len(replies), err.decode("utf-8", "replace")[-2000:], rc)
    return replies


def run_isolating(ctx, op, reqs, on_death, **kw):
    """run_batch, but when the worker dies the request it died on is attributed
    (on_death(req, WorkerDied)) and the rest of the batch is continued in a new process."""
    out = [None] * len(reqs)
    start = 0
    while start < len(reqs):
        try:
            rep = run_batch(ctx, op, reqs[start:], **kw)
            out[start:] = rep
            break
        except WorkerDied as d:
            for i in range(d.done):
                pass
            # replies received before the death are lost with the exception; re-run that prefix cheaply
            if d.done:
                out[start:start + d.done] = run_batch(ctx, op, reqs[start:start + d.done], **kw)
            bad = start + d.done
            out[bad] = {"id": reqs[bad].get("id"), "died": True, "stderr": d.stderr[-500:], "rc": d.rc,
                        "timeout": d.rc == -9 and "TIMEOUT" in d.stderr}
            on_death(reqs[bad], d)
            start = bad + 1
    return out


def timed_out(ctx, rep, what=""):
    """A worker killed by the harness's own wall-clock watchdog says nothing about the code: inconclusive, never a verdict."""
    if isinstance(rep, dict) and rep.get("timeout"):
        ctx.inconcl("worker watchdog fired %s" % what)
        return True
    return False
