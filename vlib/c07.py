"""C07 - generating directives are fully consumed and expand to what they document."""
import os
import re
import shutil

from . import matrix, refparser, scan, worker
from .common import REPO, digest, pmap

RE_ANY = re.compile(r"#aa:")
RE_DIRLINE = re.compile(r"^(\s*)#aa:(dbus|exec|stack)( .*)?$")
STD_IFACES = {"org.freedesktop.DBus.Properties", "org.freedesktop.DBus.Introspectable", "org.freedesktop.DBus.ObjectManager"}
TRANSITIONS = ["P", "U", "p", "u", "PU", "pu"]


def host_for(line, name="verifhost", sub=False):
    if sub:
        # a host that has a sub-profile of its own between the directive and its trailing local include
        return ("profile %s {\n  include <abstractions/base>\n\n  /etc/verifhost r,\n\n%s\n\n  profile helper {\n    include <abstractions/base>\n\n"
                "    /etc/helper r,\n\n    include if exists <local/%s_helper>\n  }\n\n  include if exists <local/%s>\n}\n" % (name, line, name, name))
    return "profile %s {\n  include <abstractions/base>\n\n  /etc/verifhost r,\n\n%s\n\n  include if exists <local/%s>\n}\n" % (name, line, name)


def generated_region(host, out, line):
    """Lines of `out` that replaced `line` in `host` (None if the frame changed)."""
    hl = host.split("\n")
    ol = out.split("\n")
    k = hl.index(line)
    pre, post = hl[:k], hl[k + 1:]
    if ol[:len(pre)] != pre or (post and ol[len(ol) - len(post):] != post):
        return None
    return ol[len(pre):len(ol) - len(post)]


# --------------------------------------------------------------------------- dbus
def parse_args(argstr):
    lst = argstr.split()
    amap = {}
    for t in lst:
        tmp = t.split("=")
        amap[tmp[0]] = tmp[1] if len(tmp) > 1 else ""
    return lst, amap


def unq(s):
    return s.strip().strip('"')


def peer_fields(v):
    """peer=(name=..., label=...) -> dict"""
    res = {}
    inner = v.strip()
    if inner.startswith("(") and inner.endswith(")"):
        inner = inner[1:-1]
    for part in scan.split_statements(inner + ","):
        txt = part[0]
        for tk in scan.tokens(txt):
            m = re.match(r"^([a-z_]+)=(.*)$", tk, re.S)
            if m:
                res[m.group(1)] = unq(m.group(2))
    return res


def check_dbus(argstr, region):
    """Returns list of (class, detail) disagreements with the documented expansion."""
    lst, amap = parse_args(argstr)
    bad = []
    if not lst:
        return [("no-action", "")]
    action = lst[0]
    name = amap.get("name", "")
    bus = amap.get("bus", "")
    label = unq(amap["label"]) if "label" in amap else None
    path = unq(amap.get("path") or ("/" + name.replace(".", "/") + "{,/**}"))
    wanted_ifaces = [unq(amap["interface"])] if "interface" in amap else [name + "{,.*}"]
    if "interface+" in amap:
        wanted_ifaces.append(unq(amap["interface+"]))
    # a directive documents every argument written on its line: a key given twice with two values asks for both
    multi = {}
    for t in lst[1:]:
        k, _, v = t.partition("=")
        multi.setdefault(k, []).append(unq(v))
    for k, vs in sorted(multi.items()):
        if len(set(vs)) > 1:
            if k in ("interface", "interface+"):
                wanted_ifaces += [v for v in vs if v not in wanted_ifaces]
            else:
                bad.append(("argument-dropped", "%s= is given %d times (%s): one expansion cannot honour them all" % (k, len(vs), ", ".join(vs))))
    text = "\n".join(region)
    sc = scan.scan("profile x {\n" + text + "\n}\n")
    stmts = [s for s in sc.stmts]
    dbus = [s for s in stmts if s.fields().get("kind") == "dbus"]
    others = [s for s in stmts if s.fields().get("kind") != "dbus"]
    for s in others:
        bad.append(("foreign-rule", s.norm))
    incs = [i[4] for i in sc.includes]
    if action == "own":
        if incs != ["abstractions/bus/own-" + bus]:
            bad.append(("own-include", "includes %s" % incs))
    elif incs:
        bad.append(("unexpected-include", "%s" % incs))
    binds = 0
    seen = {}   # iface -> set(access)
    for s in dbus:
        f = s.fields()
        conds = f.get("conds", {})
        acc = set()
        for p in f.get("pos", []):
            for w in re.split(r"[(),\s]+", p):
                if w:
                    acc.add(w)
        b = unq(conds.get("bus", ""))
        if b != bus:
            bad.append(("other-bus", s.norm))
        if "bind" in acc:
            binds += 1
            if action != "own":
                bad.append(("bind-not-asked", s.norm))
            if unq(conds.get("name", "")) != name + "{,.*}":
                bad.append(("bind-name", s.norm))
            continue
        if not acc <= {"send", "receive"} or not acc:
            bad.append(("access", s.norm))
        if unq(conds.get("path", "")) != path:
            bad.append(("path", s.norm))
        iface = unq(conds.get("interface", ""))
        if iface not in wanted_ifaces and iface not in STD_IFACES:
            bad.append(("interface", s.norm))
        if action == "common" and iface not in STD_IFACES:
            bad.append(("common-interface", s.norm))
        peer = peer_fields(conds.get("peer", ""))
        if action in ("talk", "common"):
            if peer.get("label") != (label or ""):
                bad.append(("peer-label", s.norm))
            if label is None and action == "common" and "label" in peer and peer["label"] != "":
                bad.append(("peer-label", s.norm))
        seen.setdefault(iface, set()).update(acc)
    if action == "own" and binds != 1:
        bad.append(("bind-count", "%d bind rules" % binds))
    if action in ("own", "talk"):
        for w in wanted_ifaces:
            if seen.get(w, set()) != {"send", "receive"}:
                bad.append(("interface-coverage", "%s has %s" % (w, sorted(seen.get(w, set())))))
    return bad


# --------------------------------------------------------------------------- exec
def check_exec(argstr, region, aad):
    lst = argstr.split()
    bad = []
    trans = "Px"
    names = lst
    if lst and lst[0] in TRANSITIONS:
        trans = lst[0] + "x"
        names = lst[1:]
    text = "\n".join(region)
    sc = scan.scan("profile x {\n" + text + "\n}\n")
    paths = []
    for s in sc.stmts:
        f = s.fields()
        if f.get("kind") != "file" or f.get("access") != trans or "target" in f or f.get("owner") or f.get("quals"):
            bad.append(("not-the-requested-transition", s.norm))
            continue
        paths.append(f["path"])
    if len(set(paths)) != len(paths):
        bad.append(("duplicate-rule", "%s" % sorted(p for p in paths if paths.count(p) > 1)[:3]))
    # lower bound + literal values: every raw value of the targets' @{exec_path} without variables must appear
    raw_total = 0
    for n in names:
        p = os.path.join(aad, n)
        if not os.path.exists(p):
            continue
        vals = []
        for line in matrix.read(p).split("\n"):
            m = re.match(r"^@\{exec_path\}\s*\+?=\s*(.*)$", line)
            if m:
                vals += m.group(1).split()
        raw_total += len(vals)
        for v in vals:
            if "@{" not in v and v not in paths:
                bad.append(("executable-missing", "%s of %s" % (v, n)))
    if len(paths) < raw_total:
        bad.append(("fewer-rules-than-executables", "%d rules for %d @{exec_path} values" % (len(paths), raw_total)))
    return bad


# --------------------------------------------------------------------------- stack
def is_exec_rule_line(line):
    code, _ = scan.strip_comment(line)
    parts = scan.split_statements(code.strip())
    for text, term in parts:
        f = scan.rule_fields(text)
        if f.get("kind") == "file" and f.get("exec"):
            return True
    return False


def stack_body_model(text, with_exec):
    """Lines a stack must insert for a stacked profile text, at the granularity of the statement."""
    lines = text.split("\n")
    start = None
    for i, l in enumerate(lines):
        if re.match(r"^profile.*\{$", l):
            start = i
            break
    if start is None:
        return None
    end = None
    for i in range(len(lines) - 1, start, -1):
        if "}" in lines[i]:
            end = i
            break
    if end is None:
        return None
    # the body ends at the last '}' of the file
    body = lines[start + 1:end] + ([lines[end][:lines[end].rindex("}")]] if lines[end].strip() != "}" else [])
    out = []
    for l in body:
        if not l.strip():
            continue
        if "include <abstractions/base>" in l:
            continue
        if "@{exec_path}" in l:
            continue
        if not with_exec and is_exec_rule_line(l):
            continue
        out.append(l.rstrip())
    return out


def check_stack(argstr, host, out, aad, line):
    lst = argstr.split()
    bad = []
    x = bool(lst) and lst[0] == "X"
    names = lst[1:] if x else lst
    ol = out.split("\n")
    hl = host.split("\n")
    # expected inserted text: per stacked profile, in the order given, a marker line and the cleaned body
    exp = []
    carried = False
    for n in names:
        t = matrix.read(os.path.join(aad, n))
        body = stack_body_model(t, x)
        if body is None:
            return [("no-body", n)]
        if any("#aa:" in l for l in body):
            carried = True
        exp.append("  # Stacked profile: " + n)
        exp += body
    # the host frame: lines before the directive and the trailing local-include block
    k = hl.index(line)
    pre = [l.rstrip() for l in hl[:k] if l.strip()]
    post = [l.rstrip() for l in hl[k + 1:] if l.strip()]
    # trailing block of the host = the run of 'include if exists' lines + '}' at the end
    tail = []
    for l in reversed(post):
        if (l.strip() == "}" and not tail) or (tail and l.strip().startswith("include if exists")):
            tail.insert(0, l)       # the closing brace of the host and the local includes right above it (not a sub-profile's)
        else:
            break
    mid = post[:len(post) - len(tail)]
    def rules_only(ls):
        # the statement speaks of rules: comment-only lines (other than the stack markers) are not compared
        return [l for l in ls if not l.strip().startswith("#") or l.startswith("  # Stacked profile: ")]

    exp = rules_only(exp)
    pre, mid, tail = rules_only(pre), rules_only(mid), rules_only(tail)
    got = rules_only([l.rstrip() for l in ol if l.strip()])
    want = pre + mid + exp + tail
    if got == want:
        return bad
    # locate the inserted region for a useful classification
    if got[:len(pre) + len(mid)] != pre + mid or got[len(got) - len(tail):] != tail:
        return [("host-changed", "host rules changed by the stack expansion")]
    region = got[len(pre) + len(mid):len(got) - len(tail)]
    marks_got = [l[len("  # Stacked profile: "):] for l in region if l.startswith("  # Stacked profile: ")]
    marks_exp = [l[len("  # Stacked profile: "):] for l in exp if l.startswith("  # Stacked profile: ")]
    if marks_got != marks_exp:
        return [("order", "stacked in order %s, expected %s" % (marks_got, marks_exp))]
    extra = [l for l in region if l not in exp]
    missing = [l for l in exp if l not in region]
    if extra and all(is_exec_rule_line(l) for l in extra) and not missing:
        cls = "exec-rule-kept"
    elif missing and not extra and all(not is_exec_rule_line(l) for l in missing):
        cls = "non-exec-line-dropped"
    elif not extra and not missing:
        cls = "reordered"
    else:
        cls = "body-differs"
    return [(cls, "extra %s missing %s" % (extra[:2], missing[:2]))]


# --------------------------------------------------------------------------- run
def shipped_directives():
    """[(rel file, line text, kind, argstr)] over the source tree."""
    res = []
    root = os.path.join(REPO, "apparmor.d")
    for dp, dns, fns in os.walk(root):
        dns.sort()
        for fn in sorted(fns):
            p = os.path.join(dp, fn)
            for l in matrix.read(p).split("\n"):
                m = RE_DIRLINE.match(l)
                if m:
                    res.append((os.path.relpath(p, root), l, m.group(2), (m.group(3) or "").strip()))
    return res


def gen_dbus(rng):
    action = rng.choice(["own", "talk", "common"])
    bus = rng.choice(["system", "session", "accessibility"])
    name = rng.choice(["org.freedesktop.Foo", "org.gnome.Shell.Bar", "com.example.App@{int}", "org.kde.kded6", "net.x.Y_z"])
    args = [action, "bus=" + bus, "name=" + name]
    if action in ("talk", "common") or rng.random() < 0.2:
        args.append("label=" + rng.choice(["foo", "systemd-logind", "\"@{p_systemd}\"", "gnome-*"]))
    if action != "common":
        if rng.random() < 0.4:
            args.append("path=" + rng.choice(["/org/x", "/org/freedesktop/Foo{,/**}", "/"]))
        r = rng.random()
        if r < 0.3:
            args.append("interface=" + rng.choice(["org.x.Iface", "org.freedesktop.Foo.Manager"]))
        elif r < 0.5:
            args.append("interface+=" + rng.choice(["org.x.Extra", "org.freedesktop.DBus.Peer"]))
        elif r < 0.6:
            args.append("interface=org.x.Iface")
            args.append("interface+=org.x.Extra")
    head, tail = args[:1], args[1:]
    rng.shuffle(tail)
    return " ".join(head + tail)


def run(ctx):
    ctx.build_bins()
    rng = ctx.rng
    ctx.rule = ("(1) every output file of every real build is one case of the leftover scan (`#aa:` anywhere); (2) each shipped or "
                "generated dbus/exec/stack directive line is one case: the real directive.Run expands it in a minimal host inside the "
                "worker (build directory of a real build as root) and the generated text, read back by the harness scanner, is compared "
                "with the documented expansion (bus, bind, peer label, path, interfaces / transition and executables / ordered body minus "
                "the three exclusions, host untouched); distinct shipped expansions are also shown to apparmor_parser. Non-trivial = "
                "directive cases (not the leftover scan)")
    cfgs = matrix.covering(rng, extra=2) if ctx.tier == "quick" else matrix.all_cfgs()
    builds, bad = matrix.build_many(ctx, cfgs, tap=True)
    for b in bad:
        ctx.violation("C07/build-failed/" + b.cfg.id, "prebuild failed: " + b.log[-300:], {"cfg": b.cfg.id})
    agg = {}

    def viol(key, where, what, case=None):
        agg.setdefault(key, []).append((where, what, case))

    good = [b for b in builds if b.rc == 0]
    # (1) leftover scan + stack order in the real pipeline output
    for b in good:
        for dp, dns, fns in os.walk(b.aad):
            for fn in fns:
                p = os.path.join(dp, fn)
                if os.path.islink(p):
                    continue
                t = matrix.read(p)
                ctx.case(None)
                rel = os.path.relpath(p, b.aad)
                if "#aa:" in t:
                    for l in t.split("\n"):
                        if "#aa:" in l:
                            viol("C07/leftover/%s/%s" % (rel.replace(".apparmor.d", ""), " ".join(l.split())), b.cfg.id,
                                 "`%s` survives in built file %s" % (l.strip(), rel))
    # workbench: one normal and one full build
    bench = []
    for want in ("normal", "full"):
        c = [b for b in good if b.cfg.full == want]
        if c:
            bench.append(c[0])
    ship = shipped_directives()
    ctx.extra["shipped_directives"] = {k: sum(1 for s in ship if s[2] == k) for k in ("dbus", "exec", "stack")}
    ctx.require(ctx.extra["shipped_directives"]["dbus"] >= 100 and ctx.extra["shipped_directives"]["exec"] >= 5 and ctx.extra["shipped_directives"]["stack"] >= 3 and bench,
                "shipped directives found: %s, workbench builds: %d" % (ctx.extra["shipped_directives"], len(bench)))
    n_gen = {"dbus": 1200, "exec": 300, "stack": 300} if ctx.tier == "quick" else {"dbus": 25000, "exec": 6000, "stack": 6000}
    for b in bench:
        aad = b.aad
        profs = [p for p in matrix.top_profiles(aad) if not p.endswith(".apparmor.d")]
        with_exec_path = [p for p in profs if "@{exec_path}" in matrix.read(os.path.join(aad, p))]
        cases = []
        for (rel, line, kind, argstr) in ship:
            if kind in ("exec", "stack"):
                names = [a for a in argstr.split() if a not in TRANSITIONS + ["X"]]
                if not all(os.path.exists(os.path.join(aad, n)) for n in names):
                    continue     # target ignored on this distribution / only in --full
            cases.append(("shipped:" + rel, line, kind, argstr))
        share = 1 if b is bench[0] else 0
        if share or len(bench) == 1:
            for i in range(n_gen["dbus"]):
                a = gen_dbus(rng)
                cases.append(("gen", "  " * rng.choice([1, 1, 2, 3]) + "#aa:dbus " + a, "dbus", a))
        for i in range(n_gen["exec"] // len(bench)):
            k = rng.randint(1, 4)
            a = " ".join(([rng.choice(TRANSITIONS)] if rng.random() < 0.6 else []) + rng.sample(with_exec_path, k))
            cases.append(("gen", "  #aa:exec " + a, "exec", a))
        for i in range(n_gen["stack"] // len(bench)):
            k = rng.randint(1, 4)
            a = " ".join((["X"] if rng.random() < 0.5 else []) + rng.sample(profs, k))
            cases.append(("gen-subhost" if rng.random() < 0.3 else "gen", "  #aa:stack " + a, "stack", a))
        # a tenth of the generated lines end in blanks an editor left behind (the arguments are the same)
        cases = [(src, (line + rng.choice(["  ", " ", "\t"])) if src.startswith("gen") and rng.random() < 0.1 else line, kind, argstr) for (src, line, kind, argstr) in cases]
        # stacks run in small fresh batches (alone-ness), the rest in big batches
        reqs = []
        for i, (src, line, kind, argstr) in enumerate(cases):
            reqs.append({"id": i, "do": "directive", "root": b.root, "abi": int(b.cfg.abi), "version": float(b.cfg.ver),
                         "file": os.path.join(aad, "verifhost"), "text": host_for(line, sub=src.endswith("subhost"))})
        envx = {"DISTRIBUTION": b.cfg.dist}
        chunks = [reqs[k:k + 250] for k in range(0, len(reqs), 250)]
        reps = []
        for part in pmap(lambda ch: worker.run_isolating(ctx, "prebuild", ch, lambda r, e: None, extra_env=envx, timeout=900), chunks):
            reps += part
        distinct_dbus = {}
        for (src, line, kind, argstr), rep in zip(cases, reps):
            host = host_for(line, sub=src.endswith("subhost"))
            src = "gen" if src.startswith("gen") else src
            ctx.case(digest(b.cfg.id, kind, argstr), {"cfg": b.cfg.id, "directive": line.strip()} if src != "gen" and kind != "dbus" else None)
            where = "%s[%s]" % (b.cfg.id, src)
            casej = {"cfg": b.cfg.id, "line": line, "source": src}
            if worker.timed_out(ctx, rep):
                continue
            if "ok" not in rep:
                msg = rep.get("error") or rep.get("panic") or rep.get("stderr") or ""
                if src == "gen" and kind == "dbus" and ("missing" in msg or "unknown dbus action" in msg):
                    continue
                viol("C07/%s/error/%s" % (kind, src if src != "gen" else "generated"), where, "directive.Run failed on `%s`: %s" % (line.strip(), msg[:200]), casej)
                continue
            out = rep["ok"]["outs"][0]
            if "#aa:" in out:
                cls = "directive-not-consumed"
                if kind == "stack" and any("#aa:" in matrix.read(os.path.join(aad, n)) for n in argstr.split() if n != "X"):
                    cls = "stacked-text-carries-directives"     # input predicate: a stacked file itself still holds a directive
                viol("C07/%s/%s/%s" % (kind, cls, src.split(":")[0]), where, "`%s` left a directive marker behind" % line.strip(), casej)
                continue
            if kind == "stack":
                probs = check_stack(argstr, host, out, aad, line)
            else:
                region = generated_region(host, out, line)
                if region is None:
                    viol("C07/%s/host-changed/%s" % (kind, src.split(":")[0]), where, "`%s` changed host lines" % line.strip(), casej)
                    continue
                probs = check_dbus(argstr, region) if kind == "dbus" else check_exec(argstr, region, aad)
                if kind == "dbus" and not probs and src != "gen":
                    distinct_dbus.setdefault("\n".join(region), line)
            for cls, detail in probs:
                sub = "X" if (kind == "stack" and argstr.split()[:1] == ["X"]) else ("nonX" if kind == "stack" else argstr.split()[0] if kind == "dbus" else "any")
                key = "C07/%s/%s/%s" % (kind, cls, sub)
                if src != "gen":
                    key += "/" + src.split(":", 1)[1]
                viol(key, where, "`%s`: %s %s" % (line.strip(), cls, detail[:300]), casej)
        # distinct shipped dbus expansions read by the reference parser
        if b is bench[0]:
            ov = os.path.join(ctx.scratch, "ov-c07")
            refparser.make_overlay(ov, aad, b.cfg.ver, b.cfg.abi)
            items = sorted(distinct_dbus.items())

            def parse_one(it):
                region, line = it
                txt = "abi <abi/3.0>,\ninclude <tunables/global>\nprofile verif_stub {\n%s\n}\n" % region
                rc, out, err = refparser.dump_struct(txt, ov=ov, timeout=60)
                return line, rc, err

            for line, rc, err in pmap(parse_one, items):
                ctx.case(digest("parser", line))
                if rc is None:
                    ctx.inconcl("parser timeout on expansion of " + line.strip())
                elif rc != 0:
                    viol("C07/dbus/parser-rejects/" + " ".join(line.split()), b.cfg.id,
                         "the expansion of `%s` is rejected by the reference parser: %s" % (line.strip(), err.strip()[-200:]), {"line": line})
            ctx.extra["dbus_expansions_parsed"] = len(items)
            shutil.rmtree(ov, ignore_errors=True)
    # (3) several directives in one file, one line being the beginning of another (`name=org.x.A` / `name=org.x.A.Control`,
    # `#aa:exec gpg` / `#aa:exec gpg-agent`): each must expand to what it expands to alone, at its own place
    if bench:
        b = bench[0]
        aad = b.aad
        profs = [p for p in matrix.top_profiles(aad) if not p.endswith(".apparmor.d") and "@{exec_path}" in matrix.read(os.path.join(aad, p))]
        byname = set(profs)
        ext = sorted((p, q) for p in profs for q in (p + "-agent", p + "-daemon", p + "-helper", p + "d", p + "-gui", p + "2") if q in byname)
        pairs = []
        for _ in range(40 if ctx.tier == "quick" else 800):
            a = [x for x in gen_dbus(rng).split() if not x.startswith("interface")]
            if a[0] == "common":
                a[0] = "own"
            nm = [x for x in a if x.startswith("name=")][0]
            rest = [x for x in a if x != nm]
            l1 = "  #aa:dbus " + " ".join(rest + [nm])
            pairs.append(("dbus", l1, l1 + rng.choice([".Control", ".Helper1", "2"])))
        for (p_, q_) in rng.sample(ext, min(len(ext), 12 if ctx.tier == "quick" else 200)):
            tr = rng.choice(["", "P ", "U "])
            pairs.append(("exec", "  #aa:exec " + tr + p_, "  #aa:exec " + tr + q_))
        reqs = []
        for i, (kind, l1, l2) in enumerate(pairs):
            order = [l1, l2] if i % 2 == 0 else [l2, l1]
            for j, lines in enumerate(([l1], [l2], order)):
                reqs.append({"id": "%d.%d" % (i, j), "do": "directive", "root": b.root, "abi": int(b.cfg.abi), "version": float(b.cfg.ver),
                             "file": os.path.join(aad, "verifhost"), "text": host_for("\n\n".join(lines))})
        reps = worker.run_isolating(ctx, "prebuild", reqs, lambda r, e: None, extra_env={"DISTRIBUTION": b.cfg.dist}, timeout=900)
        for i, (kind, l1, l2) in enumerate(pairs):
            r1, r2, r12 = reps[3 * i:3 * i + 3]
            ctx.case(digest(b.cfg.id, "pair", l1, l2))
            if not all("ok" in r for r in (r1, r2, r12)):
                if any(worker.timed_out(ctx, r) for r in (r1, r2, r12)):
                    continue
                if "ok" in r1 and "ok" in r2:
                    viol("C07/%s/error/two-directives" % kind, b.cfg.id + "[gen-pair]", "directive.Run failed on a file holding `%s` and `%s`: %s" % (
                        l1.strip(), l2.strip(), r12.get("error") or r12.get("panic")), {"lines": [l1, l2]})
                continue
            g1 = generated_region(host_for(l1), r1["ok"]["outs"][0], l1)
            g2 = generated_region(host_for(l2), r2["ok"]["outs"][0], l2)
            if g1 is None or g2 is None:
                continue
            order = [l1, l2] if i % 2 == 0 else [l2, l1]
            exp = host_for("\n\n".join("\n".join(g1 if l is l1 else g2) for l in order))
            if r12["ok"]["outs"][0] != exp:
                viol("C07/%s/expansion-depends-on-another-directive" % kind, b.cfg.id + "[gen-pair]",
                     "in a file holding `%s` and `%s` the expansions are not the ones each directive yields alone" % (l1.strip(), l2.strip()),
                     {"lines": order, "out": r12["ok"]["outs"][0], "expected": exp})
        ctx.extra["two_directive_hosts"] = len(pairs)
    for b in builds:
        shutil.rmtree(b.root, ignore_errors=True)
    for key, lst in sorted(agg.items()):
        ctx.violation(key, "%s  [%d occurrence(s), e.g. %s]" % (lst[0][1][:500], len(lst), lst[0][0]),
                      {"where": [w for w, _, _ in lst][:30], "case": lst[0][2]})
    ctx.extra["configurations"] = len(cfgs)
    ctx.extra["generated"] = n_gen
