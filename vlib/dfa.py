"""Parser, simulator and equivalence checker for `apparmor_parser -D dfa-states` dumps."""
import re
from collections import deque

RE_STATE = re.compile(r"^\{(\d+)\} perms: (.*)$")
RE_TR = re.compile(r"^    (?:.+ )?0x([0-9a-fA-F]+) -> \{(\d+)\}")
RE_ACC = re.compile(r"^\{(\d+)\} (\(0x .*\))\s*$")
HEX = "0123456789abcdefABCDEF"


class State:
    __slots__ = ("perms", "tr", "default", "excl")

    def __init__(self, perms):
        self.perms = perms
        self.tr = {}
        self.default = 0
        self.excl = frozenset()


class DFA:
    def __init__(self):
        self.start = 1
        self.states = {}
        self.clean = True

    def step(self, s, c):
        st = self.states.get(s)
        if st is None:
            return 0
        t = st.tr.get(c)
        if t is not None:
            return t
        if st.default and c not in st.excl:
            return st.default
        return 0

    def perms(self, s):
        st = self.states.get(s)
        if st is None or st.perms in ("none", ""):
            return ""
        return st.perms

    def accepts(self, data):
        """data: bytes. Returns the perms string of the reached state ('' = not accepted)."""
        cur = self.start
        for c in data:
            cur = self.step(cur, c)
            if cur == 0:
                return ""
        return self.perms(cur)


def parse_excl(s):
    """Exclusion list of a default transition -> (frozenset of bytes, unambiguous?).
    Elements are printed in ascending byte order; non-printables as \\xN / \\xNN."""
    data = s.encode("latin-1")
    results = []

    def rec(i, last, acc):
        if len(results) > 1:
            return
        if i == len(data):
            results.append(tuple(acc))
            return
        if data[i] == 0x5c and i + 2 < len(data) + 0 and i + 1 < len(data) and data[i + 1] == 0x78:
            # \xN or \xNN
            j = i + 2
            if j < len(data) and chr(data[j]) in HEX:
                v1 = int(chr(data[j]), 16)
                if v1 > last:
                    rec(j + 1, v1, acc + [v1])
                if j + 1 < len(data) and chr(data[j + 1]) in HEX:
                    v2 = int(chr(data[j]) + chr(data[j + 1]), 16)
                    if v2 > last:
                        rec(j + 2, v2, acc + [v2])
        c = data[i]
        if c > last:
            rec(i + 1, c, acc + [c])

    rec(0, -1, [])
    if not results:
        return frozenset(data), False
    return frozenset(results[0]), len(results) == 1


def parse_dump(text):
    """Returns the list of DFAs found in a dump (in order of appearance)."""
    res = []
    cur = None
    st = None
    for l in text.split("\n"):
        if l.endswith("<== (allow/deny/audit/quiet)"):
            cur = DFA()
            res.append(cur)
            st = None
            continue
        if cur is None:
            continue
        m = RE_ACC.match(l)
        if m and not l.startswith(" "):
            n = int(m.group(1))
            if n not in cur.states:
                cur.states[n] = State(m.group(2))
            continue
        m = RE_STATE.match(l)
        if m:
            n = int(m.group(1))
            p = m.group(2).strip()
            old = cur.states.get(n)
            st = State(p)
            if old is not None and p == "none":
                st.perms = old.perms
            cur.states[n] = st
            continue
        if st is None:
            continue
        m = RE_TR.match(l)
        if m:
            st.tr[int(m.group(1), 16)] = int(m.group(2))
            continue
        if l.startswith("    ["):
            k = l.rfind("] -> {")
            if k < 0:
                cur.clean = False
                continue
            inner = l[5:k]
            if inner.startswith("^"):
                inner = inner[1:]
            rest = l[k + len("] -> {"):]
            try:
                n = int(rest[:rest.index("}")])
            except ValueError:
                cur.clean = False
                continue
            ex, ok = parse_excl(inner)
            if not ok:
                cur.clean = False
            st.default = n
            st.excl = ex
    return res


def equivalent(a, b, limit=2000000):
    """Language+perms equivalence of two DFAs. Returns (True, None) or (False, witness bytes) or (None, None) if too large."""
    seen = {(a.start, b.start)}
    q = deque([((a.start, b.start), b"")])
    steps = 0
    while q:
        (x, y), w = q.popleft()
        pa = a.perms(x) if x else ""
        pb = b.perms(y) if y else ""
        if pa != pb:
            return False, w
        sx = a.states.get(x)
        sy = b.states.get(y)
        cand = set()
        for s_ in (sx, sy):
            if s_ is not None:
                cand.update(s_.tr)
                cand.update(s_.excl)
        # one representative of "everything else"
        for c in (0x61, 0x41, 0x30, 0x7a, 0x2d, 0x5f, 0x01, 0xfe):
            if c not in cand:
                cand.add(c)
                break
        else:
            for c in range(256):
                if c not in cand:
                    cand.add(c)
                    break
        for c in sorted(cand):
            nx = a.step(x, c) if x else 0
            ny = b.step(y, c) if y else 0
            if (nx or ny) and (nx, ny) not in seen:
                seen.add((nx, ny))
                q.append(((nx, ny), w + bytes([c])))
                steps += 1
                if steps > limit:
                    return None, None
    return True, None


def includes(a, b, limit=2000000):
    """Is L(b) a subset of L(a) (every string b accepts is accepted by a)? Returns (bool|None, witness)."""
    seen = {(a.start, b.start)}
    q = deque([((a.start, b.start), b"")])
    steps = 0
    while q:
        (x, y), w = q.popleft()
        if y and b.perms(y) and not (x and a.perms(x)):
            return False, w
        sx = a.states.get(x)
        sy = b.states.get(y)
        cand = set()
        for s_ in (sx, sy):
            if s_ is not None:
                cand.update(s_.tr)
                cand.update(s_.excl)
        for c in (0x61, 0x41, 0x30, 0x7a, 0x2d, 0x5f, 0x01, 0xfe):
            if c not in cand:
                cand.add(c)
                break
        for c in sorted(cand):
            nx = a.step(x, c) if x else 0
            ny = b.step(y, c) if y else 0
            if ny and (nx, ny) not in seen:
                seen.add((nx, ny))
                q.append(((nx, ny), w + bytes([c])))
                steps += 1
                if steps > limit:
                    return None, None
    return True, None
