"""C19 - every shipped profile honours the layout contract (complete enumeration of the
source corpus with an invariant monitor, plus dynamic confirmation in one real build)."""
import collections
import glob
import os
import re

from . import matrix, scan
from .common import REPO, digest

RE_ABI = re.compile(r"^ *abi <abi/4\.0>,", re.M)
ABS_DIRS = ["", "app/", "attached/", "bus/", "common/"]


def profile_files(root):
    files = []
    for d in sorted(glob.glob(os.path.join(root, "groups", "*")) + glob.glob(os.path.join(root, "profiles-*-*"))):
        if not os.path.isdir(d):
            continue
        for f in sorted(os.listdir(d)):
            p = os.path.join(d, f)
            if os.path.isfile(p) and f != "README.md":
                files.append(p)
    return files


def check_profile(path, text):
    """Returns list of (clause, detail)."""
    bad = []
    name = os.path.basename(path)
    if name.endswith(".apparmor.d"):
        name = name[:-len(".apparmor.d")]
    if not RE_ABI.search(text):
        bad.append(("abi", "no 'abi <abi/4.0>,' declaration"))
    sc = scan.scan(text)
    if sc.unbalanced:
        bad.append(("braces", "unbalanced blocks"))
    top = [b for b in sc.blocks if b.depth == 0]
    if not top:
        bad.append(("noprofile", "no profile block"))
        return bad, sc
    h = top[0].header
    if h.kind != "profile" or not h.profile_kw or h.name != name:
        bad.append(("name", "first block is '%s %s', file is %s" % (h.kind, h.name, name)))
    if h.attachments:
        if h.attachments != ["@{exec_path}"]:
            bad.append(("attachment", "attachment %r is not @{exec_path}" % " ".join(h.attachments)))
        else:
            defined = any(re.match(r"^@\{exec_path\}\s*\+?=", st.text) for st in sc.preamble
                          if st.line < top[0].line)
            if not defined:
                bad.append(("nodef", "@{exec_path} attachment without definition in the preamble"))
    inc = collections.defaultdict(set)
    for (ln, blk, ifex, magic, p) in sc.includes:
        if ifex and magic:
            inc[blk].add(p)
    for b in sc.blocks:
        if b.header.kind != "profile":
            continue
        if b is top[0]:
            wants = ["local/" + name]
        elif b.depth == 0:
            # a further top-level profile of the same file: its own name (or the name's last path component)
            wants = ["local/" + b.header.name, "local/" + b.header.name.rsplit("/", 1)[-1]]
        else:
            wants = ["local/%s_%s" % (name, b.header.name)]
        if not any(w in inc.get(b.qname, ()) for w in wants):
            bad.append(("local", "block %s lacks 'include if exists <%s>'" % (b.qname, wants[0])))
    return bad, sc


def run(ctx):
    root = os.path.join(REPO, "apparmor.d")
    files = profile_files(root)
    ctx.rule = ("each profile file under apparmor.d/groups/*/ and apparmor.d/profiles-*-*/ and each abstraction is one "
                "case, enumerated completely and read by an independent scanner; non-trivial = a profile file with an "
                "attachment, a sub-profile or a package suffix (clauses beyond abi/name/local apply), or an abstraction")
    ctx.exhaustive = True
    names = collections.Counter()
    conform_att = []
    for p in files:
        text = matrix.read(p)
        bad, sc = check_profile(p, text)
        base = os.path.basename(p)
        stripped = base[:-len(".apparmor.d")] if base.endswith(".apparmor.d") else base
        names[stripped] += 1
        top = [b for b in sc.blocks if b.depth == 0]
        nontriv = None
        if (top and top[0].header.attachments) or len(sc.blocks) > 1 or base.endswith(".apparmor.d"):
            nontriv = "p:" + base
        ctx.case(nontriv, {"file": os.path.relpath(p, REPO), "blocks": [b.qname for b in sc.blocks][:4]})
        if top and top[0].header.attachments == ["@{exec_path}"] and not bad:
            conform_att.append(base)
        for clause, detail in bad:
            ctx.violation("C19/%s/%s" % (clause, os.path.relpath(p, root)),
                          "%s: %s" % (os.path.relpath(p, REPO), detail), {"file": p, "clause": clause})
    for n, c in names.items():
        ctx.case(None)
        if c > 1:
            ctx.violation("C19/duplicate-basename/%s" % n, "%d profile files share the base name %s" % (c, n), {"name": n})
    # abstractions
    nabs = 0
    for sub in ABS_DIRS:
        d = os.path.join(root, "abstractions", sub)
        if not os.path.isdir(d):
            continue
        for f in sorted(os.listdir(d)):
            p = os.path.join(d, f)
            if not os.path.isfile(p):
                continue
            nabs += 1
            text = matrix.read(p)
            sc = scan.scan(text)
            want = "abstractions/%s%s.d" % (sub, f)
            ok = any(ifex and magic and pth.rstrip("/") == want for (_, _, ifex, magic, pth) in sc.includes)
            ctx.case("a:" + sub + f)
            if not ok:
                ctx.violation("C19/abstraction-dotd/%s%s" % (sub, f),
                              "abstractions/%s%s lacks 'include if exists <%s>'" % (sub, f, want), {"file": p})
            if not RE_ABI.search(text):
                ctx.violation("C19/abstraction-abi/%s%s" % (sub, f), "abstractions/%s%s lacks abi <abi/4.0>," % (sub, f), {"file": p})
    ctx.require(len(files) >= 1000 and nabs >= 100, "%d profile files, %d abstractions" % (len(files), nabs))
    ctx.extra["profile_files"] = len(files)
    ctx.extra["abstractions"] = nabs
    # dynamic confirmation: the consumers of the contract find what it promises
    dists = ["arch"] if ctx.tier == "quick" else matrix.DISTS
    ctx.build_bins(worker=False)
    cfgs = [matrix.Cfg(d, "4", "4.1", "none", "normal") for d in dists]
    builds, bad = matrix.build_many(ctx, cfgs, tap=True)
    for b in bad:
        ctx.violation("C19/build-failed/" + b.cfg.id, "prebuild failed: " + b.log[-300:], {"cfg": b.cfg.id})
    confirmed = 0
    for b in builds:
        if b.rc != 0:
            continue
        bdir = os.path.join(b.tap, "built", "apparmor.d")
        for base in conform_att:
            p = os.path.join(bdir, base)
            if not os.path.exists(p):
                continue   # ignored on this distribution
            sc = scan.scan(matrix.read(p))
            top = [x for x in sc.blocks if x.depth == 0]
            ctx.case(None)
            if not top or top[0].header.attachments in ([], ["@{exec_path}"]):
                ctx.violation("C19/attachment-not-resolved/%s" % base,
                              "%s: conforming source profile %s left the builder stage with attachment %r" % (
                                  b.cfg.id, base, top[0].header.attachments if top else None), {"cfg": b.cfg.id, "file": base})
            else:
                confirmed += 1
    ctx.require(confirmed >= 1000 * len([b for b in builds if b.rc == 0]) * 0.9, "only %d attachments observed at the builder tap" % confirmed)
    ctx.extra["attachments_confirmed_rewritten"] = confirmed
