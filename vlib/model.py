"""Independent manifest model of the documented prepare stage (no project code):
ignore lists, flattening, configure step, full-policy step, overwrite list, drop-ins."""
import os
import re

from .common import REPO

REMOVED_41 = ["abstractions/devices-usb-read", "abstractions/devices-usb",
              "abstractions/nameservice-strict", "tunables/multiarch.d/base", "wg"]
PKG = "apparmor.d"


def read_manifest(path):
    """Lines of a manifest with comments (anything from optional blanks + '#') and blank lines removed."""
    out = []
    if not os.path.exists(path):
        return out
    for l in open(path, encoding="utf-8", errors="replace"):
        l = re.sub(r"\s*#.*", "", l.rstrip("\n"))
        if l.strip():
            out.append(l)
    return out


def listing(root):
    """relpath -> 'F' | 'L:target' for files and symlinks below root."""
    res = {}
    for dp, dns, fns in os.walk(root):
        for f in fns + [d for d in dns if os.path.islink(os.path.join(dp, d))]:
            p = os.path.join(dp, f)
            rel = os.path.relpath(p, root)
            res[rel] = ("L:" + os.readlink(p)) if os.path.islink(p) else "F"
    return res


def read_flags(src, name):
    res = {}
    for line in read_manifest(os.path.join(src, "dists", "flags", name + ".flags")):
        parts = line.split(" ")
        res[parts[0]] = parts[1].split(",") if len(parts) > 1 and parts[1] else []
    return res


class Expected:
    def __init__(self):
        self.aad = {}       # rel path in output policy dir -> ('F', source path) | ('L', target)
        self.systemd = {}   # rel path -> source path
        self.share = {}
        self.clashes = []   # (rel, src1, src2)
        self.flags = {}     # output rel path -> manifest flags (non-empty lists only)
        self.edits = {}     # output rel path -> function(text)->text  (documented full-policy edits)
        self.ignored = set()
        self.overwritten = []


def expected(src, dist, abi, ver, full):
    """src: root of a source tree copy (contains apparmor.d, dists, systemd, share)."""
    abi = int(abi)
    ver = float(ver)
    e = Expected()
    tree = {}
    for top in ("apparmor.d", "share"):
        for rel, t in listing(os.path.join(src, top)).items():
            tree[top + "/" + rel] = (t, os.path.join(src, top, rel))
    for name in ("main", dist):
        for ign in read_manifest(os.path.join(src, "dists", "ignore", name + ".ignore")):
            ign = ign.strip()
            key = ign.rstrip("/")
            hit = [k for k in tree if k == key or k.startswith(key + "/")]
            if hit:
                for k in hit:
                    e.ignored.add(k)
                    del tree[k]
            else:
                for k in list(tree):
                    if k.startswith("apparmor.d/") and ign in k.split("/")[1:]:
                        e.ignored.add(k)
                        del tree[k]
    out = {}
    for k in sorted(tree):
        t, srcp = tree[k]
        if k.startswith("share/"):
            e.share[k[len("share/"):]] = srcp
            continue
        parts = k.split("/")[1:]
        if parts[0] == "groups":
            if len(parts) < 3:
                continue      # a file directly in groups/ is removed with the directory
            parts = parts[2:]
        elif parts[0].startswith("profiles-"):
            if len(parts) < 2:
                continue
            parts = parts[1:]
        rel = "/".join(parts)
        if rel in out and len(parts) == 1:
            e.clashes.append((rel, out[rel][1], srcp))
        out[rel] = (t, srcp)
    if dist in ("debian", "whonix") and ver < 4.1 or dist == "ubuntu" and ver < 3.0:
        base = os.path.join(src, "dists", "ubuntu")
        for rel, t in listing(base).items():
            out[rel] = (t, os.path.join(base, rel))
    if ver == 4.1:
        for rm in REMOVED_41:
            for k in [k for k in out if k == rm or k.startswith(rm + "/")]:
                del out[k]
    if full:
        base = os.path.join(src, "apparmor.d", "groups", "_full")
        for rel, t in listing(base).items():
            out[rel] = (t, os.path.join(base, rel))
        e.edits["tunables/multiarch.d/profiles"] = lambda s: s.replace(
            "@{p_systemd}=unconfined", "@{p_systemd}=systemd").replace(
            "@{p_systemd_user}=unconfined", "@{p_systemd_user}=systemd-user")
        e.edits["abstractions/gstreamer"] = lambda s: "\n".join(
            ("" if "gst-plugin-scanner" in l else l) for l in s.split("\n"))
    for name in ("main", dist):
        for prof, flags in read_flags(src, name).items():
            if flags:
                e.flags[prof] = flags
    for k, (t, srcp) in out.items():
        e.aad[k] = ("L", t[2:]) if t.startswith("L:") else ("F", srcp)
    if abi == 4:
        for n in read_manifest(os.path.join(src, "dists", "overwrite")):
            n = n.strip()
            e.overwritten.append(n)
            if n in e.aad:
                e.aad[n + "." + PKG] = e.aad.pop(n)
                if n in e.flags:
                    e.flags[n + "." + PKG] = e.flags.pop(n)
            e.aad["disable/" + n] = ("L", "../" + n)
    sd = os.path.join(src, "systemd")
    for sub in ["default"] + (["full"] if full else ["early"]):
        base = os.path.join(sd, sub)
        for rel, t in listing(base).items():
            e.systemd[rel] = os.path.join(base, rel)
    return e
