"""C17 - full-system-policy builds leave no unconfined fallback on rewritten exec rules."""
import os
import shutil

from . import matrix, scan
from .common import REPO, digest

FALLBACK = ("rPUx", "rUx")


def built_name(rel):
    """source path relative to apparmor.d -> path relative to the output policy directory."""
    parts = rel.split("/")
    if parts[0] == "groups" and len(parts) == 3:
        return parts[2]
    if parts[0].startswith("profiles-") and len(parts) == 2:
        return parts[1]
    return rel


def source_index():
    """{built rel path: [(path text, line, guarded)]} for every source rule written r+PUx / r+Ux without target."""
    root = os.path.join(REPO, "apparmor.d")
    idx = {}
    total = 0
    for dp, dns, fns in os.walk(root):
        dns.sort()
        for fn in sorted(fns):
            p = os.path.join(dp, fn)
            text = matrix.read(p)
            if "Ux" not in text:
                continue
            sc = scan.scan(text)
            guarded_lines = guarded(sc, text)
            for st in sc.stmts:
                f = st.fields()
                if f.get("kind") == "file" and f.get("access") in FALLBACK and "target" not in f:
                    rel = built_name(os.path.relpath(p, root))
                    idx.setdefault(rel, []).append((f["path"], st.line, st.line in guarded_lines, os.path.relpath(p, root)))
                    total += 1
    return idx, total


def guarded(sc, text):
    """Line numbers under an only/exclude guard (inline or paragraph)."""
    lines = text.split("\n")
    res = set()
    for (ln, name, args, inline, raw, blk) in sc.directives:
        if name not in ("only", "exclude"):
            continue
        if inline:
            res.add(ln)
        else:
            k = ln + 1
            while k <= len(lines) and lines[k - 1].strip():
                res.add(k)
                k += 1
    return res


def run(ctx):
    ctx.build_bins(worker=False)
    idx, total = source_index()
    cand_paths = {}
    for rel, lst in idx.items():
        for (path, line, g, src) in lst:
            cand_paths.setdefault(path, src)
    if ctx.tier == "thorough":
        cfgs = [c for c in matrix.all_cfgs() if c.full == "full"]
        ctx.exhaustive = True
    else:
        cfgs = [c for c in matrix.covering(ctx.rng, extra=2) if c.full == "full"]
        for d in matrix.DISTS:      # every distribution at least once
            if not any(c.dist == d for c in cfgs):
                cfgs.append(matrix.Cfg(d, ctx.rng.choice(matrix.ABIS), ctx.rng.choice(matrix.VERS),
                                       ctx.rng.choice(matrix.MODES), "full"))
    ctx.rule = ("each (source rule written r+PUx or r+Ux without target, --full configuration) is one case, observed in the "
                "final output file of a real prebuild run (and every statement of every output file is scanned for a "
                "surviving r+pux/r+ux whose path is one of those rules', which also covers copies inserted by stack); "
                "non-trivial = the rule's file exists in that build and a counterpart statement was found")
    builds, bad = matrix.build_many(ctx, cfgs, tap=True)
    agg = {}
    rewritten = 0
    unmatched = 0
    for b in bad:
        ctx.violation("C17/build-failed/" + b.cfg.id, "prebuild failed: " + b.log[-300:], {"cfg": b.cfg.id})
    for b in builds:
        if b.rc != 0:
            continue
        tasks = ""
        try:
            tasks = open(os.path.join(b.tap, "tasks.txt")).read()
        except OSError:
            pass
        if "build fsp" not in tasks:
            ctx.violation("C17/fsp-not-registered/" + b.cfg.id, "--full build without the fsp builder: " + tasks.replace("\n", ";"),
                          {"cfg": b.cfg.id})
        for dp, dns, fns in os.walk(b.aad):
            for fn in fns:
                p = os.path.join(dp, fn)
                if os.path.islink(p):
                    continue
                rel = os.path.relpath(p, b.aad)
                text = matrix.read(p)
                mine = idx.get(rel, [])
                if not mine and "ux" not in text and "Ux" not in text:
                    continue
                sc = scan.scan(text)
                px_paths = {}
                for st in sc.stmts:
                    f = st.fields()
                    if f.get("kind") != "file" or f.get("exec") is None or "target" in f:
                        continue
                    if f.get("letters") != "r":
                        continue
                    mode = f["exec"].lower()
                    if mode in ("pux", "ux") and f["path"] in cand_paths:
                        own = any(f["path"] == m[0] for m in mine)
                        key = "C17/unconfined-fallback/%s/%s" % (rel, f["path"])
                        agg.setdefault(key, []).append((b.cfg.id, st.norm, own))
                    elif mode == "px":
                        px_paths[f["path"]] = px_paths.get(f["path"], 0) + 1
                for (path, line, g, src) in mine:
                    if px_paths.get(path):
                        rewritten += 1
                        ctx.case(digest(rel, path, b.cfg.id), {"cfg": b.cfg.id, "file": rel, "path": path, "built": "r+px"})
                    else:
                        ctx.case(None)
                        if not any(k.endswith("/%s/%s" % (rel, path)) for k in agg) and not g:
                            unmatched += 1
        shutil.rmtree(b.root, ignore_errors=True)
    for key, lst in sorted(agg.items()):
        cf = sorted({c for c, _, _ in lst})
        ctx.violation(key, "full build keeps an unconfined fallback: `%s` in %d configuration(s), e.g. %s%s" % (
            lst[0][1], len(cf), cf[0], "" if lst[0][2] else " (copy of a rule of another source profile)"),
            {"configs": cf, "statement": lst[0][1]})
    ctx.require(total >= 100 and (rewritten >= total or agg), "%d source rules with r+PUx/r+Ux, %d rewritten counterparts observed" % (total, rewritten))
    ctx.extra.update({"source_rules": total, "configurations": len(cfgs), "rewritten_observed": rewritten,
                      "counterpart_not_found": unmatched})
    if unmatched:
        ctx.inconcl("%d (rule, configuration) pairs had no counterpart statement in the output (file ignored on that "
                    "distribution or rule removed by a directive)" % unmatched)
