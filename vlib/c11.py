"""C11 - rule ordering is a consistent total preorder, so sorting is canonical."""
import itertools

from . import refparser, rulegen, worker
from .c09 import calibrate, source_overlay
from .common import digest, pmap

KNOWN_PREFIXES = rulegen.PREFIXES


def prefix_known(path):
    # as written: a quoted path starts with '"', which is not a documented prefix
    return any(path.startswith(x) for x in KNOWN_PREFIXES)


def ident(r):
    """Identity of a rule: its canonical text with set-valued fields in sorted order."""
    if "text" in r:
        return r["text"]
    n = dict(r)
    for k in rulegen.SET_FIELDS:
        if isinstance(n.get(k), list):
            if r["kind"] == "file" and k == "Access":
                n[k] = sorted(x for x in n[k] if len(x) == 1 and x in "mrwlk") + [x for x in n[k] if not (len(x) == 1 and x in "mrwlk")]
            else:
                n[k] = sorted(n[k])
    return rulegen.canon(n)


def near_duplicate(rng, r):
    """Second rule derived from the first by one edit."""
    import copy
    n = copy.deepcopy(r)
    n["Comment"] = ""
    edits = []
    for k, v in r.items():
        if k in ("kind", "Comment"):
            continue
        if isinstance(v, str) and v and any(c.isalpha() for c in v) and k not in ("AccessType", "Type", "Bus", "Op", "Key", "ExecMode", "FsType", "Domain", "Protocol"):
            edits.append(("case", k))
        if isinstance(v, bool):
            edits.append(("flip", k))
        if isinstance(v, str) and v and k in ("Path", "Target", "Peer", "PeerLabel", "PeerName", "Name", "MountPoint", "Source"):
            edits.append(("byte", k))
    if not edits:
        return None
    what, k = rng.choice(edits)
    if what == "case":
        s = n[k]
        idx = [i for i, c in enumerate(s) if c.isalpha()]
        # not inside a variable name
        idx = [i for i in idx if not in_variable(s, i)]
        if not idx:
            return None
        i = rng.choice(idx)
        n[k] = s[:i] + s[i].swapcase() + s[i + 1:]
    elif what == "flip":
        n[k] = not n[k]
        if r["kind"] == "userns" and k == "Create":
            return None
    else:
        n[k] = n[k].rstrip("/") + rng.choice(["é", "~x", "%"]) + ("/" if n[k].endswith("/") else "")
    return n


def outside_pair(rng, r):
    """Two rules derived from r that differ in one byte only, both bytes outside the library's sort alphabet
    (the comparison has to fall back on the byte values there)."""
    import copy
    keys = [k for k, v in r.items() if isinstance(v, str) and v and not v.startswith('"') and k in ("Path", "Target", "Peer", "PeerLabel", "Name", "MountPoint", "Source")]
    if not keys:
        return None
    k = rng.choice(keys)
    if rng.random() < 0.3:
        # letters whose case mapping is irregular (dotted capital I, long s, Kelvin sign) next to their plain relatives
        x, y = rng.choice([("İ", "I"), ("İ", "i"), ("ſ", "s"), ("\u212a", "k"), ("ı", "i"), ("ẞ", "ß")])
    else:
        x, y = rng.sample(["é", "ü", "ß", "Ω", "日", "\u00a0"], 2)
    a, b = copy.deepcopy(r), copy.deepcopy(r)
    a["Comment"] = b["Comment"] = ""
    base = r[k].rstrip("/")
    tail = "/" if r[k].endswith("/") else ""
    a[k], b[k] = base + x + tail, base + y + tail
    return a, b


def slash_pair(rng, r):
    """Two rules whose paths differ only by a trailing '/', a doubled '/' or a '/./' segment (a directory and a file, for AppArmor)."""
    import copy
    keys = [k for k, v in r.items() if isinstance(v, str) and v.startswith("/") or (isinstance(v, str) and v.startswith("@{")) and k in ("Path", "MountPoint", "Source")]
    keys = [k for k in keys if k in ("Path", "MountPoint", "Source") and not r[k].startswith('"') and len(r[k]) > 2]
    if not keys:
        return None
    k = rng.choice(keys)
    a, b = copy.deepcopy(r), copy.deepcopy(r)
    a["Comment"] = b["Comment"] = ""
    base = r[k].rstrip("/")
    if not base or base.endswith("*") or base.endswith("}"):
        return None
    how = rng.choice(["trailing", "trailing", "double"])
    if how == "trailing":
        a[k], b[k] = base, base + "/"
    else:
        j = base.rfind("/")
        if j <= 0:
            return None
        a[k], b[k] = base, base[:j] + "/" + base[j:]
    return a, b


def padded_pair(rng, r):
    """Two rules that differ only in the zero padding of a number inside one string field (tty1 / tty01)."""
    import copy
    import re as _re
    keys = [k for k, v in r.items() if isinstance(v, str) and v and not v.startswith('"') and k in ("Path", "Target", "Peer", "PeerLabel", "Name", "MountPoint", "Source")]
    if not keys:
        return None
    k = rng.choice(keys)
    a, b = copy.deepcopy(r), copy.deepcopy(r)
    a["Comment"] = b["Comment"] = ""
    v = r[k]
    m = None
    for m_ in _re.finditer(r"(?<![0-9@{])[0-9]+(?![0-9}*\]])", v):
        if not in_variable(v, m_.start()) and "[" not in v[:m_.start()].rsplit("/", 1)[-1]:
            m = m_
            break
    if m:
        b[k] = v[:m.start()] + rng.choice(["0", "00"]) + v[m.start():]
    else:
        base = v.rstrip("/")
        tail = "/" if v.endswith("/") else ""
        n = str(rng.randint(1, 9))
        a[k], b[k] = base + n + tail, base + "0" + n + tail
    return a, b


def in_variable(s, i):
    a = s.rfind("@{", 0, i + 1)
    return a >= 0 and s.find("}", a) >= i


def strip_comment(r):
    r = dict(r)
    r["Comment"] = ""
    return r


def trigger_class(rules):
    """Input predicate used to key findings: which known trigger does this tuple of rules contain."""
    kinds = {r["kind"] for r in rules}
    ncom = len({r["text"] for r in rules if r["kind"] == "comment"})
    if ncom >= 2 or (ncom == 1 and any(r["kind"] == "include" and "if exists" not in r["text"] for r in rules)):
        return "comment-among-sorted-rules"
    if kinds == {"file"}:
        known = [prefix_known(r["Path"]) for r in rules]
        if any(known) and not all(known):
            return "file-mixed-known-unknown-prefix"
    return None


def run(ctx):
    refparser.require()
    ctx.build_bins()
    rng = ctx.rng
    n_tr, n_lists = (20000, 2000) if ctx.tier == "quick" else (600000, 60000)
    ctx.rule = ("each triple of valid same-kind rules (strata: file rules with all-known, no-known and mixed path prefixes, owner/non-owner, "
                "mixed qualifiers, twins differing in letter case / one appended byte / one flag / one byte outside the sort alphabet on both sides) is one case for antisymmetry, transitivity "
                "and `equal only if identical` on Rule.Compare; each list of 3-15 rules x 8 permutations is one case for idempotence and "
                "permutation-independence of Rules.Sort (rendered text). Non-trivial = triples with three pairwise different rules; lists "
                "whose permutations differ")
    ov = source_overlay(ctx)
    pool_n = 3000 if ctx.tier == "quick" else 20000
    pool = [strip_comment(rulegen.gen_rule(rng)) for _ in range(pool_n)]
    # paths containing '=' are mis-tokenised (finding C09/equals-in-path): not part of this domain
    pool = [r for r in pool if not any("=" in str(r.get(k, "")) for k in ("Path", "Target", "Source", "MountPoint", "OldRoot", "NewRoot", "Exec"))]
    extra = []
    twins = []       # pairs that differ in exactly one edit: compared with each other, not only with random partners
    for r in pool[:pool_n // 3]:
        n = near_duplicate(rng, r)
        if n:
            extra.append(n)
            twins.append((r, n))
        if rng.random() < 0.3:
            ab = outside_pair(rng, r)
            if ab:
                extra += list(ab)
                twins.append(ab)
        if rng.random() < 0.2:
            ab = padded_pair(rng, r)
            if ab:
                extra += list(ab)
                twins.append(ab)
        if rng.random() < 0.2:
            ab = slash_pair(rng, r)
            if ab:
                extra += list(ab)
                twins.append(ab)
    line_rules = [{"kind": "comment", "text": "# " + c, "Comment": ""} for c in ("first note", "second note", "Zeta", "alpha")]
    line_rules += [{"kind": "include", "text": "include <abstractions/%s>" % a, "Comment": ""} for a in ("base", "nameservice-strict", "dconf-write", "bus-session")]
    line_rules += [{"kind": "include", "text": "include if exists <local/foo>", "Comment": ""}]
    pool, ood = calibrate(ctx, pool + extra, ov)
    pool += line_rules
    # one plain rule per documented path prefix (same tail, owner, access): every triple of them is compared, so that the order of
    # the prefix groups is checked completely, not by the luck of the draw
    grid = [{"kind": "file", "Comment": "", "Audit": False, "AccessType": "", "Owner": False, "Target": "", "Path": px + "/zz", "Access": ["r"]}
            for px in KNOWN_PREFIXES]
    pool += grid
    ctx.extra["out_of_domain_rules"] = ood
    bykind = {}
    for r in pool:
        bykind.setdefault(r["kind"], []).append(r)
    # library validity
    texts = {}
    idents = {}
    for r in pool:
        texts[id(r)] = rulegen.canon(r)
        idents[id(r)] = ident(r)
    # --- triples ---------------------------------------------------------------------------
    triples = []
    kinds = [k for k in bykind if len(bykind[k]) >= 3 and k not in ("comment",)]
    triples += [list(t3) for t3 in itertools.combinations(grid, 3)]
    alive = {id(r) for r in pool}
    twins = [(a, b) for a, b in twins if id(a) in alive and id(b) in alive]
    for _ in range(n_tr):
        if twins and rng.random() < 0.15:
            a, b = rng.choice(twins)
            t = [a, b, rng.choice(bykind[a["kind"]])]
            rng.shuffle(t)
            triples.append(t)
            continue
        k = rng.choice(kinds) if rng.random() < 0.5 else "file"
        if k not in bykind or len(bykind[k]) < 3:
            k = rng.choice(kinds)
        lst = bykind[k]
        if k == "file":
            stratum = rng.choice(["known", "unknown", "mixed", "any"])
            if stratum == "known":
                cand = [r for r in lst if prefix_known(r["Path"])]
            elif stratum == "unknown":
                cand = [r for r in lst if not prefix_known(r["Path"])]
            else:
                cand = lst
            if len(cand) >= 3:
                lst = cand
        triples.append(rng.sample(lst, 3))
    agg = {}

    def viol(key, what, case):
        agg.setdefault(key, []).append((what, case))

    def do_chunk(chunk):
        reqs = [{"id": i, "do": "compare", "rules": ["  " + texts[id(r)] + "\n\n" for r in t]} for i, t in enumerate(chunk)]
        return worker.run_isolating(ctx, "aa", reqs, lambda r, e: None, timeout=900)

    chunks = [triples[i:i + 2500] for i in range(0, len(triples), 2500)]
    results = []
    for part in pmap(do_chunk, chunks):
        results += part
    for t, rep in zip(triples, results):
        tx = [texts[id(r)] for r in t]
        idn = [idents[id(r)] for r in t]
        distinct = len(set(idn)) == 3
        ctx.case(digest(*tx) if distinct else None, {"triple": tx} if distinct else None)
        if worker.timed_out(ctx, rep):
            continue
        if "ok" not in rep:
            msg = str(rep.get("error") or rep.get("panic") or rep)
            if "expected one rule" in msg or rep.get("error"):
                continue       # parse problems are C09's business
            viol("C11/compare-panics/%s" % t[0]["kind"], "Compare panicked on %s: %s" % (tx, msg[:200]), {"rules": tx})
            continue
        m = rep["ok"]["matrix"]
        cls = trigger_class(t)
        suffix = ("/" + cls) if cls else ""
        kind = t[0]["kind"]
        K = (lambda law: "C11/" + cls) if cls else (lambda law: "C11/%s/%s" % (law, kind))
        bad = False
        for i, j in itertools.combinations(range(3), 2):
            if m[i][j] is None:
                continue
            if m[i][j] != -m[j][i]:
                viol(K("antisymmetry"), "cmp(a,b)=%d but cmp(b,a)=%d for a=`%s` b=`%s`" % (m[i][j], m[j][i], tx[i], tx[j]), {"rules": [tx[i], tx[j]]})
                bad = True
            if m[i][j] == 0 and idn[i] != idn[j]:
                viol(K("equal-but-different"), "cmp=0 for different rules `%s` and `%s`" % (tx[i], tx[j]), {"rules": [tx[i], tx[j]]})
                bad = True
        if bad:
            continue
        for a, b, c in itertools.permutations(range(3), 3):
            if m[a][b] is None or m[b][c] is None or m[a][c] is None:
                continue
            if m[a][b] <= 0 and m[b][c] <= 0 and m[a][c] > 0:
                viol(K("intransitive"), "a<=b, b<=c but a>c for a=`%s` b=`%s` c=`%s`" % (tx[a], tx[b], tx[c]), {"rules": [tx[a], tx[b], tx[c]]})
                break
    # --- every shipped abstraction as an include rule: complete comparison matrix --------------
    import os
    from .common import REPO
    incs = set()
    for base in (os.path.join(REPO, "apparmor.d", "abstractions"), "/etc/apparmor.d/abstractions"):
        for dp, dns, fns in os.walk(base):
            for fn in fns:
                rel = os.path.relpath(os.path.join(dp, fn), os.path.dirname(base))
                incs.add("include <%s>" % rel)
    incs = sorted(incs)
    incs += ["include if exists <%s>" % x[len("include <"):-1] for x in incs[:40]] + ["include \"/etc/apparmor.d/local/x\""]
    rep = worker.run_batch(ctx, "aa", [{"id": "inc", "do": "compare", "rules": ["  " + t + "\n\n" for t in incs]}], timeout=600)[0]
    if "ok" in rep:
        m = rep["ok"]["matrix"]
        n = len(incs)
        wins = [sum(1 for j in range(n) if m[i][j] is not None and m[i][j] < 0) for i in range(n)]
        order = sorted(range(n), key=lambda i: -wins[i])
        for a in range(n):
            for b in range(a + 1, n):
                i, j = order[a], order[b]
                ctx.evaluations += 1
                if m[i][j] != -m[j][i]:
                    viol("C11/antisymmetry/include", "cmp(a,b)=%s but cmp(b,a)=%s for a=`%s` b=`%s`" % (m[i][j], m[j][i], incs[i], incs[j]), {"rules": [incs[i], incs[j]]})
                elif m[i][j] == 0:
                    viol("C11/equal-but-different/include", "cmp=0 for different rules `%s` and `%s`" % (incs[i], incs[j]), {"rules": [incs[i], incs[j]]})
                elif m[i][j] > 0:
                    viol("C11/intransitive/include", "the comparison of includes is not consistent with any linear order: `%s` has more predecessors than `%s` but compares greater" % (incs[i], incs[j]),
                         {"rules": [incs[i], incs[j]]})
        ctx.nontrivial.add(digest("include-matrix", str(n)))
        ctx.extra["include_matrix"] = n
    # --- lists ----------------------------------------------------------------------------
    lists = []
    for _ in range(n_lists):
        k = rng.randint(3, 15)
        stratum = rng.choice(["mixed-kinds", "files-known", "files-any", "one-kind", "with-line-rules"])
        if stratum == "files-known":
            cand = [r for r in bykind.get("file", []) if prefix_known(r["Path"])]
        elif stratum == "files-any":
            cand = bykind.get("file", [])
        elif stratum == "one-kind":
            cand = bykind[rng.choice(kinds)]
        else:
            cand = pool
        if len(cand) < 3:
            cand = pool
        lst = rng.sample(cand, min(k, len(cand)))
        if stratum == "with-line-rules":
            known_files = [r for r in bykind.get("file", []) if prefix_known(r["Path"])]
            lst = rng.sample(known_files, min(3, len(known_files))) + rng.sample(line_rules, rng.randint(2, 4))
        perms = [lst] + [rng.sample(lst, len(lst)) for _ in range(7)]
        lists.append((stratum, lst, perms))

    def do_lists(chunk):
        reqs = [{"id": i, "do": "sortlist", "perms": [["  " + texts[id(r)] + "\n\n" for r in p] for p in perms]} for i, (s, l, perms) in enumerate(chunk)]
        return worker.run_isolating(ctx, "aa", reqs, lambda r, e: None, timeout=900)

    chunks = [lists[i:i + 250] for i in range(0, len(lists), 250)]
    results = []
    for part in pmap(do_lists, chunks):
        results += part
    # the same calls (a slice of them) in a worker built with the race detector: Compare and Sort must not share unsynchronised state
    from . import race
    rb = race.build(ctx, worker=True)
    rl = race.logdir(ctx, "worker")
    n_rl = 250 if ctx.tier == "quick" else 5000
    rreqs = [{"id": i, "do": "sortlist", "perms": [["  " + texts[id(r)] + "\n\n" for r in p] for p in perms]} for i, (s_, l_, perms) in enumerate(lists[:n_rl])]
    rreps = worker.run_isolating(ctx, "aa", rreqs, lambda r, e: None, timeout=1800, bindir=rb, extra_env={"GORACE": race.gorace(rl)})
    for (s_, l_, perms), rep, rr in zip(lists[:n_rl], results[:n_rl], rreps):
        ctx.case(None)
        if "ok" in rep and "ok" in rr and rep["ok"]["sorted"] != rr["ok"]["sorted"]:
            viol("C11/sort-depends-on-input-order/under-race-detector", "the same Sort calls give another result in the worker built with -race: %s" % [texts[id(r)] for r in l_][:4],
                 {"rules": [texts[id(r)] for r in l_]})
    race.judge(ctx, "C11", rl, "worker, %d sort lists x 8 permutations" % len(rreqs), 1)
    for (stratum, lst, perms), rep in zip(lists, results):
        tx = [texts[id(r)] for r in lst]
        if worker.timed_out(ctx, rep):
            continue
        if "ok" not in rep:
            ctx.case(None)
            continue
        srt = rep["ok"]["sorted"]
        twice = rep["ok"]["sorted_twice"]
        ctx.case(digest(*tx), {"list": tx[:5], "stratum": stratum} if len(set(srt)) > 1 else None)
        files_ = [r for r in lst if r["kind"] == "file"]
        cls = (trigger_class(files_) if files_ else None) or trigger_class([r for r in lst if r["kind"] in ("comment", "include")] or [{"kind": "x"}])
        KL = (lambda law: "C11/" + cls) if cls else (lambda law: "C11/%s/%s" % (law, stratum))
        if any(a != b for a, b in zip(srt, twice)):
            viol(KL("sort-not-idempotent"), "Sort(Sort(L)) != Sort(L) for a list of %d rules, e.g. %s" % (len(tx), tx[:4]), {"list": tx})
        elif len(set(srt)) > 1:
            viol(KL("sort-depends-on-input-order"), "sorting %d permutations of the same %d rules gives %d different texts, e.g. %s" % (
                len(perms), len(tx), len(set(srt)), tx[:4]), {"list": tx})
    for key, lst in sorted(agg.items()):
        ctx.violation(key, "%s  [%d case(s)]" % (lst[0][0][:600], len(lst)), lst[0][1])
    ctx.require(len(pool) >= 500 and ctx.extra.get("include_matrix", 0) >= 100, "pool %d, include matrix %s" % (len(pool), ctx.extra.get("include_matrix")))
    ctx.extra.update({"triples": len(triples), "lists": len(lists), "pool": len(pool)})
