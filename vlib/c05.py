"""C05 - build mode and flags manifests, and nothing else, determine profile flags."""
import os
import shutil

from . import matrix, model, refparser, scan, worker
from .common import REPO, digest, pmap, pmap_proc


def blocks_of_build(aad):
    """{rel file: [(qname, ordinal, flags tuple, header rest)]} for every file of a build."""
    res = {}
    for dp, dns, fns in os.walk(aad):
        for fn in fns:
            p = os.path.join(dp, fn)
            if os.path.islink(p):
                continue
            t = matrix.read(p)
            if "{" not in t:
                continue
            sc = scan.scan(t)
            if not sc.blocks:
                continue
            seen = {}
            lst = []
            for b in sc.blocks:
                k = seen.get(b.qname, 0)
                seen[b.qname] = k + 1
                lst.append((b.qname, k, tuple(b.header.flags), b.header.rest(), b.line))
            res[os.path.relpath(p, aad)] = lst
    return res


def source_blocks(path):
    sc = scan.scan(matrix.read(path))
    return [(b.qname, tuple(b.header.flags)) for b in sc.blocks]


def run(ctx):
    ctx.build_bins()
    rng = ctx.rng
    base4 = [(d, a, v, f) for d in matrix.DISTS for a in matrix.ABIS for v in matrix.VERS for f in matrix.FULLS]
    if ctx.tier == "thorough":
        groups = base4
        ctx.exhaustive = True
    else:
        groups = []
        for d in matrix.DISTS:
            for f in matrix.FULLS:
                groups.append((d, rng.choice(matrix.ABIS), rng.choice(matrix.VERS), f))
    ctx.rule = ("each profile block (main profile, sub-profile, hat; any file) of each (distribution, ABI, version, full) group is one "
                "case per mode: flags in the complain/enforce build vs the neither build of the same group (set equality modulo "
                "`complain`, rest of header equal), and neither-build flags vs source flags / flags manifests; plus generated headers "
                "through the real complain/enforce builders in the worker. Non-trivial = blocks with flags in the source or manifest, "
                "sub-blocks, and generated headers")
    cfgs = [matrix.Cfg(d, a, v, m, f) for (d, a, v, f) in groups for m in matrix.MODES]
    builds, bad = matrix.build_many(ctx, cfgs, tap=False)
    for b in bad:
        ctx.violation("C05/build-failed/" + b.cfg.id, "prebuild failed: " + b.log[-300:], {"cfg": b.cfg.id})
    bmap = {b.cfg: b for b in builds if b.rc == 0}
    scanned = dict(zip([b.cfg for b in builds if b.rc == 0],
                       pmap_proc(blocks_of_build, [b.aad for b in builds if b.rc == 0])))
    agg = {}

    def viol(key, cfgid, what):
        key = key.replace(".apparmor.d/", "/")   # the ABI-4 overwrite rename is not part of the identity of a finding
        if key.endswith(".apparmor.d"):
            key = key[:-len(".apparmor.d")]
        agg.setdefault(key, []).append((cfgid, what))

    for (d, a, v, f) in groups:
        cn = matrix.Cfg(d, a, v, "none", f)
        if cn not in scanned:
            continue
        none = scanned[cn]
        # neither-build flags vs source + manifests
        exp = model.expected(REPO, d, a, v, f == "full")
        for rel, lst in sorted(none.items()):
            srcinfo = exp.aad.get(rel)
            if not srcinfo or srcinfo[0] != "F":
                continue
            sb = source_blocks(srcinfo[1])
            for i, (qn, k, flags, rest, line) in enumerate(lst):
                nt = digest(rel, qn, cn.id) if (flags or i > 0 or rel in exp.flags) else None
                ctx.case(nt)
                if rel in exp.flags:
                    if i == 0 and sorted(flags) != sorted(exp.flags[rel]):
                        viol("C05/manifest-flags-not-applied/%s" % rel, cn.id,
                             "%s: a flags manifest gives (%s), the build without mode option has (%s)" % (
                                 rel, ",".join(exp.flags[rel]), ",".join(flags)))
                    continue
                if i < len(sb) and sb[i][0] == qn:
                    if sorted(sb[i][1]) != sorted(flags):
                        viol("C05/source-flags-changed/%s/%s" % (rel, qn), cn.id,
                             "%s block %s: source flags (%s), built without mode option (%s)" % (rel, qn, ",".join(sb[i][1]), ",".join(flags)))
        for mode in ("complain", "enforce"):
            cm = matrix.Cfg(d, a, v, mode, f)
            if cm not in scanned:
                continue
            other = scanned[cm]
            for rel in sorted(set(none) | set(other)):
                ln, lo = none.get(rel), other.get(rel)
                if ln is None or lo is None or [(q, k) for q, k, *_ in ln] != [(q, k) for q, k, *_ in lo]:
                    viol("C05/blocks-differ/%s" % rel, cm.id, "%s: the set of blocks differs between the %s and the neither build" % (rel, mode))
                    continue
                for (qn, k, fn_, restn, _), (_, _, fo, resto, line) in zip(ln, lo):
                    sub = "//" in qn
                    ctx.case(digest(rel, qn, k, cm.id) if (fn_ or sub) else None,
                             {"cfg": cm.id, "file": rel, "block": qn, "flags_none": list(fn_), "flags_mode": list(fo)} if sub and fn_ else None)
                    want = set(fn_) | {"complain"} if mode == "complain" else set(fn_) - {"complain"}
                    if mode == "complain" and "complain" not in fo:
                        viol("C05/complain-missing/%s/%s" % (rel, qn), cm.id, "%s block %s is not in complain mode in a --complain build (flags: %s)" % (rel, qn, ",".join(fo)))
                    elif mode == "enforce" and "complain" in fo:
                        viol("C05/enforce-keeps-complain/%s/%s" % (rel, qn), cm.id, "%s block %s is still in complain mode in an --enforce build (flags: %s)" % (rel, qn, ",".join(fo)))
                    elif set(fo) != want:
                        viol("C05/other-flags-changed/%s/%s" % (rel, qn), cm.id, "%s block %s: flags (%s) without mode option, (%s) with --%s" % (
                            rel, qn, ",".join(fn_), ",".join(fo), mode))
                    if restn != resto:
                        viol("C05/header-changed/%s/%s" % (rel, qn), cm.id, "%s block %s: header changed beyond flags: %r vs %r" % (rel, qn, restn, resto))
    # block enumeration cross-check with the reference parser (-N) on one ABI 3 build
    cross_check_names(ctx, bmap, scanned)
    for b in builds:
        shutil.rmtree(b.root, ignore_errors=True)
    generated(ctx, agg)
    manifest_precedence(ctx, agg)
    for key, lst in sorted(agg.items()):
        cf = sorted({c for c, _ in lst})
        ctx.violation(key, "%s  [%d configuration(s), e.g. %s]" % (lst[0][1], len(cf), cf[0]), {"configs": cf[:40]})
    ctx.require(ctx.evaluations >= 1000 * len(groups), "only %d block comparisons for %d groups" % (ctx.evaluations, len(groups)))
    ctx.extra["groups"] = len(groups)
    ctx.extra["builds"] = len(cfgs)


def cross_check_names(ctx, bmap, scanned):
    cands = [c for c in sorted(bmap) if c.abi == "3" and c.ver != "4.1"] or [c for c in sorted(bmap) if c.abi == "3"]
    if not cands:
        return
    c = cands[0]
    b = bmap[c]
    ov = os.path.join(ctx.scratch, "ov-names")
    refparser.make_overlay(ov, b.aad, c.ver, c.abi)
    profs = matrix.top_profiles(b.aad)
    profs = ctx.rng.sample(profs, min(len(profs), 200 if ctx.tier == "quick" else len(profs)))

    def names(n):
        rc, out, err = refparser.run_parser(["-Q", "-K", "-N", "-b", ov, "-I", ov, os.path.join(ov, n)], timeout=60)
        return n, rc, [l.strip() for l in out.decode("utf-8", "replace").split("\n") if l.strip()]

    mism = 0
    for n, rc, lst in pmap(names, profs):
        if rc != 0:
            continue
        mine = sorted(q for q, *_ in scanned[c].get(n, []))
        # blocks contributed by includes are seen by the parser only: compare on the scanner's own blocks
        ref = set(lst)
        miss = [q for q in mine if q not in ref and not any(ch in q for ch in "@*{")]
        ctx.case(None)
        if miss:
            mism += 1
            ctx.inconcl("scanner/parser disagree on blocks of %s: %s not in %s" % (n, miss, sorted(ref)[:6]))
    ctx.extra["block_enumeration_cross_checked_files"] = len(profs)
    ctx.extra["block_enumeration_disagreements"] = mism
    shutil.rmtree(ov, ignore_errors=True)


FLAGSETS = [[], ["complain"], ["attach_disconnected"], ["attach_disconnected", "complain"], ["complain", "attach_disconnected"],
            ["attach_disconnected", "mediate_deleted"], ["audit"], ["complain", "audit", "mediate_deleted"]]


def gen_profile(rng, i):
    """A generated profile text with 1-4 blocks; returns (text, [(qname, flags)])."""
    name = "gen%d" % i
    blocks = []

    def hdr(kind, nm, flags, xattrs, att, glue, sep):
        s = {"profile": "profile " + nm, "hat": "hat " + nm, "caret": "^" + nm}[kind]
        if att:
            s += " " + att
        if xattrs:
            s += " xattrs=(user.tag=%s)" % nm
        if flags:
            s += " flags=(" + sep.join(flags) + ")"
        s += ("{" if glue and flags else " {")
        if rng.random() < 0.12:
            s += rng.choice(["  # a note on the header line", " # {", "  ", "\t# tab before the note"])       # a header line may end in a comment or blanks
        return s

    mainf = rng.choice(FLAGSETS)
    sep = rng.choice([",", ", ", ","])
    att = rng.choice(["@{exec_path}", "", "/usr/bin/%s" % name])
    lines = ["abi <abi/4.0>,", "", "include <tunables/global>", ""]
    if att == "@{exec_path}":
        lines += ["@{exec_path} = @{bin}/%s" % name]
    lines.append(hdr("profile", name, mainf, rng.random() < 0.2, att, rng.random() < 0.15, sep))
    blocks.append((name, mainf))
    lines += ["  include <abstractions/base>", "", "  /etc/%s r," % name, "  # a comment ending with a brace {", ""]
    for j in range(rng.randint(0, 3)):
        kind = rng.choice(["profile", "profile", "hat", "caret"])
        sn = "sub%d" % j
        sf = rng.choice(FLAGSETS)
        lines.append("  " + hdr(kind, sn, sf, False, "", rng.random() < 0.1, rng.choice([",", ", "])))
        lines += ["    /var/%s r," % sn, "    include if exists <local/%s_%s>" % (name, sn), "  }", ""]
        blocks.append((name + "//" + sn, sf))
    lines += ["  include if exists <local/%s>" % name, "}", ""]
    return "\n".join(lines), blocks


def generated(ctx, agg):
    n = 300 if ctx.tier == "quick" else 6000
    rng = ctx.rng
    cases = [gen_profile(rng, i) for i in range(n)]
    for mode in ("complain", "enforce"):
        reqs = [{"id": "reg", "do": "register", "builders": [mode]}]
        for i, (text, blocks) in enumerate(cases):
            reqs.append({"id": i, "do": "builder", "file": "/nonexistent/apparmor.d/gen%d" % i, "text": text})
        try:
            reps = worker.run_batch(ctx, "prebuild", reqs, timeout=600)
        except worker.WorkerDied as d:
            ctx.violation("C05/generated/worker-died/" + mode, "worker died on generated headers: " + d.stderr[-300:], {"mode": mode})
            continue
        for (text, blocks), rep in zip(cases, reps[1:]):
            ctx.case(digest(text, mode), {"mode": mode, "input_blocks": blocks} if rep["id"] in (0, 1) else None)
            if worker.timed_out(ctx, rep):
                continue
            if "ok" not in rep:
                ctx.violation("C05/generated/error/" + mode, "%s builder failed on a generated profile: %r" % (mode, rep), {"text": text, "mode": mode})
                continue
            sc = scan.scan(rep["ok"])
            got = [(b.qname, list(b.header.flags), b.header.rest()) for b in sc.blocks]
            src = scan.scan(text)
            srcb = [(b.qname, list(b.header.flags), b.header.rest()) for b in src.blocks]
            if [g[0] for g in got] != [s[0] for s in srcb]:
                ctx.violation("C05/generated/blocks-changed/" + mode, "blocks changed: %s -> %s" % ([s[0] for s in srcb], [g[0] for g in got]),
                              {"text": text, "mode": mode, "out": rep["ok"]})
                continue
            for (qn, fo, resto), (_, fs, rests) in zip(got, srcb):
                want = set(fs) | {"complain"} if mode == "complain" else set(fs) - {"complain"}
                cls = None
                if mode == "complain" and "complain" not in fo:
                    cls = "complain-missing"
                elif mode == "enforce" and "complain" in fo:
                    cls = "enforce-keeps-complain"
                elif set(fo) != want:
                    cls = "other-flags-changed"
                elif resto != rests:
                    cls = "header-changed"
                if cls:
                    which = "sub-block" if "//" in qn else "main-block"
                    ctx.violation("C05/generated/%s/%s/%s" % (cls, mode, which),
                                  "generated profile, block %s: source flags %s, after the %s builder %s (header %r -> %r)" % (
                                      qn, fs, mode, fo, rests, resto), {"text": text, "mode": mode, "out": rep["ok"]})
            # non-header lines untouched
            def non_headers(t):
                # header line = code part (comment stripped) ends with '{' and reads as a block header; its trailing comment is
                # kept as a pseudo-line of its own: it must not change either
                out = []
                for l in t.split("\n"):
                    code, com = scan.strip_comment(l)
                    if code.rstrip().endswith("{") and scan.parse_header(code) is not None and not l.strip().startswith("#"):
                        out.append("<header> " + com)
                    else:
                        out.append(l)
                return out

            a, b = non_headers(text), non_headers(rep["ok"])
            if a != b:
                ctx.violation("C05/generated/non-header-line-changed/" + mode, "a line that is not a block header changed under the %s builder" % mode,
                              {"text": text, "mode": mode, "out": rep["ok"]})
    ctx.extra["generated_profiles"] = n


def manifest_precedence(ctx, agg):
    """A tree variant: a profile named by the common manifest is also named, with other flags, by the manifest of the
    distribution. 'The common and per-distribution manifests' override the source flags in that order: the distribution's
    entry is the one the built header carries."""
    from .common import REPO
    dist = ctx.rng.choice(["debian", "ubuntu", "whonix", "arch", "opensuse"])
    cfg = matrix.Cfg(dist, "4", "4.0", "none", "normal")
    main = model.read_flags(REPO, "main")
    own = model.read_flags(REPO, dist)
    exp = model.expected(REPO, dist, "4", "4.0", False)
    cands = sorted(p for p, fl in main.items() if p not in own and p in exp.aad and fl)
    if not cands:
        ctx.inconcl("manifest precedence: no candidate profile for " + dist)
        return
    victims = ctx.rng.sample(cands, min(3, len(cands)))
    newflags = {}
    for v in victims:
        newflags[v] = ["attach_disconnected"] if "attach_disconnected" not in main[v] else ["mediate_deleted"]

    def mut(src):
        with open(os.path.join(src, "dists", "flags", dist + ".flags"), "a") as f:
            for v in victims:
                f.write("%s %s\n" % (v, ",".join(newflags[v])))

    b = matrix.run_build(ctx, cfg, tag="manifest-precedence", tap=False, src_mutator=mut)
    if b.rc != 0:
        ctx.inconcl("manifest precedence build failed: " + b.log[-200:])
        return
    for v in victims:
        ctx.case(digest("manifest-precedence", dist, v), {"variant": "%s.flags gains `%s %s` (main.flags: %s)" % (dist, v, ",".join(newflags[v]), ",".join(main[v]))})
        p = os.path.join(b.aad, v)
        if not os.path.exists(p):
            p += ".apparmor.d"
        sc = scan.scan(matrix.read(p)) if os.path.exists(p) else None
        got = sorted(sc.blocks[0].header.flags) if sc and sc.blocks else None
        if got != sorted(newflags[v]):
            agg.setdefault("C05/manifest-precedence", []).append((cfg.id, "%s is given (%s) by main.flags and (%s) by %s.flags: the built header has (%s), not the distribution's entry" % (
                v, ",".join(main[v]), ",".join(newflags[v]), dist, ",".join(got or []))))
    ctx.extra["manifest_precedence_variant"] = {"distribution": dist, "profiles": victims}
    shutil.rmtree(b.root, ignore_errors=True)
