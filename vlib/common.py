"""Shared plumbing of the runtime monitors: scratch space, builds of the real
code from /repo's working tree, verdict bookkeeping, evidence and replay files."""
import atexit
import hashlib
import json
import os
import random
import shutil
import subprocess
import sys
import tempfile
import time

VERIF = os.path.dirname(os.path.dirname(os.path.abspath(__file__)))
REPO = os.environ.get("VERIF_REPO", "/repo")
GOENV = {
    "GOFLAGS": "-mod=mod",
    "GOPROXY": "off",
    "GOSUMDB": "off",
    "GOTOOLCHAIN": "local",
}
NCPU = max(2, min(16, os.cpu_count() or 4))


def env(**extra):
    e = dict(os.environ)
    e.update(GOENV)
    e.update({k: str(v) for k, v in extra.items()})
    return e


def sh(cmd, cwd=None, timeout=None, env_=None, input_=None, check=False):
    """Run a command, return (rc, stdout, stderr) as text (errors='replace')."""
    p = subprocess.run(
        cmd, cwd=cwd, timeout=timeout, env=env_ or env(), input=input_,
        stdout=subprocess.PIPE, stderr=subprocess.PIPE, check=False)
    out = p.stdout.decode("utf-8", "replace")
    err = p.stderr.decode("utf-8", "replace")
    if check and p.returncode != 0:
        raise HarnessError("command failed (%d): %s\n%s\n%s" % (p.returncode, cmd, out[-2000:], err[-2000:]))
    return p.returncode, out, err


class HarnessError(Exception):
    """The machinery itself failed (exit 2): never a verdict on the project."""


def digest(*parts):
    h = hashlib.sha256()
    for p in parts:
        if not isinstance(p, (str, bytes)):
            p = repr(p)
        if isinstance(p, str):
            p = p.encode("utf-8", "surrogateescape")
        h.update(p)
        h.update(b"\0")
    return h.hexdigest()


class Ctx:
    """One run of one check."""

    def __init__(self, pid, tier, seed, level="exploration"):
        self.pid = pid
        self.tier = tier
        self.seed = seed
        self.level = level
        self.t0 = time.time()
        self.rng = random.Random("%s/%s" % (pid, seed))
        base = os.environ.get("VERIF_SCRATCH_BASE") or tempfile.gettempdir()
        self.scratch = tempfile.mkdtemp(prefix="verif-%s-" % pid, dir=base)
        atexit.register(self.cleanup)
        self.bins = os.path.join(self.scratch, "bin")
        self.evaluations = 0
        self.nontrivial = set()
        self.samples = []
        self.max_samples = 6
        self.violations = []          # (key, what, replay_obj)
        self.known_seen = {}          # key -> what
        self.inconclusive = 0
        self.inconclusive_notes = []
        self.extra = {}               # additional coverage counters
        self.assumptions = []
        self.rule = ""
        self.exhaustive = False
        self.known = load_findings(pid)
        self._built = False

    # -- scratch -----------------------------------------------------------
    def cleanup(self):
        if os.environ.get("VERIF_KEEP_SCRATCH"):
            sys.stderr.write("scratch kept: %s\n" % self.scratch)
            return
        shutil.rmtree(self.scratch, ignore_errors=True)

    def mkdir(self, *names):
        p = os.path.join(self.scratch, *names)
        os.makedirs(p, exist_ok=True)
        return p

    # -- building the real code -----------------------------------------------
    def build_bins(self, worker=True):
        """Build prebuild, aa-log (tag verif) from /repo's working tree and the
        in-process worker which links /repo's packages through a replace."""
        if self._built:
            return
        os.makedirs(self.bins, exist_ok=True)
        t = time.time()
        xf = os.environ.get("VERIF_GOBUILD_FLAGS", "").split()      # e.g. -race, for the smoke runs of DESIGN section 1
        rc, out, err = sh(["go", "build"] + xf + ["-tags", "verif", "-o", self.bins + "/",
                           "./cmd/prebuild", "./cmd/aa-log"], cwd=REPO, timeout=900)
        if rc != 0:
            raise HarnessError("cannot build /repo with -tags verif:\n" + out + err)
        if worker and os.environ.get("VERIF_WORKER_BIN"):
            # development aid (coverage measurement of the generators): a worker built elsewhere from the same sources
            shutil.copy(os.environ["VERIF_WORKER_BIN"], self.bins + "/vworker")
        elif worker:
            wdir = os.path.join(VERIF, "worker")
            args = ["go", "build"] + xf + ["-tags", "verif", "-o", self.bins + "/vworker"]
            if os.path.realpath(REPO) != "/repo":
                # trial runs against a scratch copy of the repository: same worker sources, other replace target
                mf = os.path.join(self.scratch, "worker.mod")
                txt = open(os.path.join(wdir, "go.mod")).read().replace("=> /repo", "=> " + os.path.realpath(REPO))
                open(mf, "w").write(txt)
                shutil.copy(os.path.join(REPO, "go.sum"), os.path.join(self.scratch, "worker.sum"))
                args.append("-modfile=" + mf)
            rc, out, err = sh(args + ["."], cwd=wdir, timeout=900, env_=env(GOFLAGS="-mod=mod"))
            if rc != 0:
                raise HarnessError("cannot build the worker against /repo:\n" + out + err)
        self.extra["build_s"] = round(time.time() - t, 1)
        self._built = True

    # -- verdict bookkeeping ---------------------------------------------------
    def case(self, nontrivial_key=None, sample=None):
        """Count one case that reached the oracle."""
        self.evaluations += 1
        if nontrivial_key is not None:
            self.nontrivial.add(nontrivial_key if isinstance(nontrivial_key, str) else digest(repr(nontrivial_key)))
        if sample is not None and len(self.samples) < self.max_samples:
            self.samples.append(sample)

    def violation(self, key, what, replay=None):
        """Record a violated case. key: stable finding key computed from the input."""
        if key in self.known:
            if key not in self.known_seen:
                self.known_seen[key] = what
            return
        self.violations.append((key, what, replay))

    def require(self, cond, what):
        """A monitor that has gone blind must not report success."""
        if not cond and not self.violations:
            # (with violations on record the shortfall is most likely their consequence: they are reported instead)
            raise HarnessError("the monitor did not observe what it is built to observe: " + what)

    def inconcl(self, note):
        self.inconclusive += 1
        if len(self.inconclusive_notes) < 10:
            self.inconclusive_notes.append(note[:300])

    # -- finishing -------------------------------------------------------------
    def finish(self):
        if self.evaluations == 0:
            raise HarnessError("the monitor observed nothing")
        outbase = os.environ.get("VERIF_OUT_DIR") or VERIF   # mutant trials write elsewhere
        rdir = os.path.join(outbase, "replays", self.pid)
        printed = 0
        seen_keys = set()
        for key, what, replay in self.violations:
            if key in seen_keys:
                continue
            seen_keys.add(key)
            if printed >= 20:
                continue
            os.makedirs(rdir, exist_ok=True)
            path = os.path.join(rdir, digest(key)[:16] + ".json")
            with open(path, "w") as f:
                json.dump({"property": self.pid, "key": key, "what": what, "seed": self.seed,
                           "tier": self.tier, "case": replay}, f, indent=1, default=str)
            print("VIOLATION property=%s replay=%s" % (self.pid, path))
            print("  key=%s" % key)
            print("  %s" % what[:600])
            printed += 1
        for key, what in sorted(self.known_seen.items()):
            print("KNOWN-FINDING: property=%s %s [%s]" % (self.pid, self.known[key].get("what", what), key))
        cov = {
            "evaluations": self.evaluations,
            "distinct_nontrivial": len(self.nontrivial),
            "rule": self.rule,
            "samples": self.samples,
            "exhaustive": self.exhaustive,
            "inconclusive": self.inconclusive,
            "inconclusive_notes": self.inconclusive_notes,
            "known_findings_seen": sorted(self.known_seen),
            "distinct_violation_keys": sorted(seen_keys)[:2000],
            "violation_details": {k: w[:400] for k, w, _ in self.violations[:2000]},
        }
        cov.update(self.extra)
        ev = {
            "property_id": self.pid,
            "tier": self.tier,
            "seed": self.seed,
            "level": self.level,
            "coverage": cov,
            "assumptions": self.assumptions,
            "wall_s": round(time.time() - self.t0, 2),
            "violations": len(seen_keys),
        }
        os.makedirs(os.path.join(outbase, "evidence"), exist_ok=True)
        tmp = os.path.join(outbase, "evidence", ".%s.json.tmp" % self.pid)
        with open(tmp, "w") as f:
            json.dump(ev, f, indent=1, default=str)
        os.replace(tmp, os.path.join(outbase, "evidence", "%s.json" % self.pid))
        print("%s %s seed=%s: evaluations=%d distinct_nontrivial=%d violations=%d known=%d inconclusive=%d wall=%.1fs" % (
            self.pid, self.tier, self.seed, self.evaluations, len(self.nontrivial), len(seen_keys),
            len(self.known_seen), self.inconclusive, time.time() - self.t0))
        return 1 if seen_keys else 0


def load_findings(pid):
    path = os.path.join(VERIF, "known_findings.json")
    res = {}
    if os.path.exists(path):
        for e in json.load(open(path)):
            if e.get("status") == "known" and e.get("property") == pid:
                res[e["key"]] = e
    return res


def pmap(fn, items, workers=None):
    """Thread-pool map preserving order (the work is in child processes)."""
    from concurrent.futures import ThreadPoolExecutor
    items = list(items)
    if not items:
        return []
    with ThreadPoolExecutor(max_workers=workers or NCPU) as ex:
        return list(ex.map(fn, items))


def pmap_proc(fn, items, workers=None):
    """Process-pool map (fork) for CPU-bound python work; fn must be a top-level function."""
    import multiprocessing as mp
    items = list(items)
    if not items:
        return []
    ctxmp = mp.get_context("fork")
    with ctxmp.Pool(processes=min(workers or NCPU, len(items))) as pool:
        return pool.map(fn, items, chunksize=1)
