"""The reference AppArmor parser (apparmor_parser 3.0.8 + /etc/apparmor.d) as oracle:
overlay construction, AppArmor-4 set-aside, parse/compile, dumps."""
import hashlib
import os
import re
import shutil
import subprocess

from . import scan
from .common import REPO, HarnessError, digest, pmap

PARSER = "/usr/sbin/apparmor_parser"
UPSTREAM = "/etc/apparmor.d"
# Files the project removes for AppArmor >= 4.1 because upstream ships them there.
# Hard-coded on purpose (not read from the code under test).
STANDIN_41 = ["abstractions/devices-usb-read", "abstractions/devices-usb",
              "abstractions/nameservice-strict", "tunables/multiarch.d/base"]
AA4_KINDS = ("userns", "mqueue", "io_uring", "all")
RE_AA4 = re.compile(r"\b(userns|mqueue|io_uring|all)\b")
RE_INC = re.compile(r"^\s*#?include\s+(?:if\s+exists\s+)?<([^>]+)>", re.M)


def require():
    if not os.access(PARSER, os.X_OK) or not os.path.isdir(UPSTREAM):
        raise HarnessError("reference parser or /etc/apparmor.d missing")


def parser_id():
    h = hashlib.sha256(open(PARSER, "rb").read()).hexdigest()[:16]
    return "apparmor_parser 3.0.8 sha256:%s" % h


def set_aside_text(text):
    """Comment out AppArmor-4-only statements (userns, mqueue, io_uring, all)."""
    if not RE_AA4.search(text):
        return text, 0
    sc = scan.scan(text)
    lines = text.split("\n")
    n = 0
    for st in sc.stmts:
        f = st.fields()
        if f.get("kind") in AA4_KINDS:
            for ln in range(st.line, st.end_line + 1):
                if not lines[ln - 1].lstrip().startswith("#SETASIDE"):
                    lines[ln - 1] = "#SETASIDE " + lines[ln - 1]
            n += 1
    return "\n".join(lines), n


def make_overlay(dst, build_aad, ver, abi, setaside=None):
    """dst := /etc/apparmor.d + (4.1 stand-ins) + build output; abi/4.0 := abi/3.0.
    Returns number of statements set aside."""
    if os.path.exists(dst):
        shutil.rmtree(dst)
    shutil.copytree(UPSTREAM, dst, symlinks=True)
    if str(ver) == "4.1":
        for rel in STANDIN_41:
            src = os.path.join(REPO, "apparmor.d", rel)
            if os.path.exists(src):
                os.makedirs(os.path.dirname(os.path.join(dst, rel)), exist_ok=True)
                shutil.copy(src, os.path.join(dst, rel))
    if build_aad:
        shutil.copytree(build_aad, dst, symlinks=True, dirs_exist_ok=True)
    a30 = os.path.join(dst, "abi", "3.0")
    a40 = os.path.join(dst, "abi", "4.0")
    if os.path.exists(a30) and not os.path.exists(a40):
        shutil.copy(a30, a40)
    n = 0
    if setaside is None:
        setaside = str(abi) == "4"
    if setaside:
        for dp, dns, fns in os.walk(dst):
            if os.path.relpath(dp, dst).split(os.sep)[0] in ("abi", "disable", "force-complain"):
                continue
            for fn in fns:
                p = os.path.join(dp, fn)
                if os.path.islink(p):
                    continue
                try:
                    t = open(p, encoding="utf-8", errors="surrogateescape").read()
                except OSError:
                    continue
                t2, k = set_aside_text(t)
                if k:
                    with open(p, "w", encoding="utf-8", errors="surrogateescape") as f:
                        f.write(t2)
                    n += k
    return n


RE_ERR = [
    ("variable", re.compile(r"Found reference to variable|variable .* is never declared|not defined|referenced recursively", re.I)),
    ("include", re.compile(r"Could not open|could not find|No such file|Could not (?:open|process) include", re.I)),
    ("xconflict", re.compile(r"conflicting x modifiers", re.I)),
    ("syntax", re.compile(r"syntax error|Lexer found unexpected|unexpected", re.I)),
]


def classify(rc, text):
    if rc == 0 and not re.search(r"\berror\b|Found reference to variable|conflicting x modifiers", text, re.I):
        return None
    for name, rx in RE_ERR:
        if rx.search(text):
            return name
    return "other"


def run_parser(args, timeout=120, input_=None):
    """Runs the reference parser in its own process group; on timeout the whole group is killed
    (the parser forks compile workers, which would otherwise survive it and keep a core busy)."""
    import signal
    try:
        p = subprocess.Popen([PARSER] + args, stdin=subprocess.PIPE if input_ is not None else subprocess.DEVNULL,
                             stdout=subprocess.PIPE, stderr=subprocess.PIPE, start_new_session=True)
    except OSError as e:
        return None, b"", str(e).encode()
    try:
        out, err = p.communicate(input=input_, timeout=timeout)
        return p.returncode, out, err
    except subprocess.TimeoutExpired:
        try:
            os.killpg(p.pid, signal.SIGKILL)
        except OSError:
            pass
        try:
            p.communicate(timeout=10)
        except Exception:
            pass
        return None, b"", b"TIMEOUT"
    finally:
        try:
            os.killpg(p.pid, signal.SIGKILL)      # no straggler of the group may outlive the call
        except OSError:
            pass


def parse_file(ov, path, compile_=False, timeout=300):
    """Returns (errclass|None|'timeout', diagnostic text)."""
    args = ["-Q", "-K"]
    if not compile_:
        args.append("-d")
    args += ["-b", ov, "-I", ov, path]
    rc, out, err = run_parser(args, timeout=timeout)
    if rc is None:
        return "timeout", "timeout"
    # with -d the structure dump goes to stdout; diagnostics to stderr
    text = err.decode("utf-8", "replace")
    text = "\n".join(l for l in text.split("\n") if l and not l.startswith("Cache") and "Warning from" not in l)
    if rc == 0:
        cls = classify(0, text)
    else:
        if not text.strip():
            text = out.decode("utf-8", "replace")[-500:]
        cls = classify(rc, text) or "other"
    return cls, text[:600]


def include_closure(ov, start_files):
    """Set of overlay-relative paths reachable through magic includes from start_files."""
    seen = set()
    todo = list(start_files)
    reached = set()
    while todo:
        p = todo.pop()
        if p in seen:
            continue
        seen.add(p)
        try:
            t = open(p, encoding="utf-8", errors="replace").read()
        except OSError:
            continue
        for inc in RE_INC.findall(t):
            q = os.path.join(ov, inc)
            if os.path.isdir(q):
                for fn in sorted(os.listdir(q)):
                    r = os.path.join(q, fn)
                    if os.path.isfile(r):
                        reached.add(os.path.relpath(r, ov))
                        todo.append(r)
                reached.add(inc.rstrip("/"))
            elif os.path.isfile(q):
                reached.add(os.path.relpath(q, ov))
                todo.append(q)
    return reached


def tree_digest(root, skip_top_files=True):
    """Digest of every file below the sub-directories of root (not the top-level files)."""
    h = hashlib.sha256()
    for dp, dns, fns in os.walk(root):
        dns.sort()
        if dp == root and skip_top_files:
            continue
        for fn in sorted(fns):
            p = os.path.join(dp, fn)
            h.update(os.path.relpath(p, root).encode())
            if os.path.islink(p):
                h.update(b"L" + os.readlink(p).encode())
            else:
                with open(p, "rb") as f:
                    h.update(hashlib.sha256(f.read()).digest())
    return h.hexdigest()


# ---------------------------------------------------------------------------
# stubs: expanded variables, compiled bytes, dfa dumps

def expanded_variables(text, ov=None, timeout=20):
    """Run -d -D expanded-variables on a policy text. Returns (rc, {name: [values]}, stderr)."""
    args = ["-Q", "-K", "-d", "-D", "expanded-variables"]
    if ov:
        args += ["-b", ov, "-I", ov]
    rc, out, err = run_parser(args, timeout=timeout, input_=text.encode("utf-8", "surrogateescape"))
    et = err.decode("utf-8", "replace")
    vals = {}
    for l in (out.decode("utf-8", "replace") + "\n" + et).split("\n"):
        m = re.match(r"^(@\{?[A-Za-z0-9_]+\}?) = (.*)$", l.strip())
        if m:
            name = m.group(1).strip("@{}")
            vals[name] = re.findall(r'"((?:[^"\\]|\\.)*)"', m.group(2))
    return rc, vals, et


def compile_bytes(text, ov=None, abi=True, timeout=60):
    """Compile a stub policy text to binary (-S). Returns (rc, bytes, stderr)."""
    args = ["-Q", "-K"]
    if ov:
        args += ["-b", ov, "-I", ov]
    if abi:
        args += ["-M", os.path.join(ov or UPSTREAM, "abi", "3.0")]
    args += ["-S"]
    rc, out, err = run_parser(args, timeout=timeout, input_=text.encode("utf-8", "surrogateescape"))
    return rc, out, err.decode("utf-8", "replace")


def dfa_dump(text, ov=None, abi=True, timeout=60):
    args = ["-Q", "-K"]
    if ov:
        args += ["-b", ov, "-I", ov]
    if abi:
        args += ["-M", os.path.join(ov or UPSTREAM, "abi", "3.0")]
    args += ["-D", "dfa-states"]
    rc, out, err = run_parser(args, timeout=timeout, input_=text.encode("utf-8", "surrogateescape"))
    return rc, (out + b"\n" + err).decode("latin-1")


def dump_struct(text, ov=None, timeout=30):
    """-d structure dump of a policy text. Returns (rc, stdout text, stderr text)."""
    args = ["-Q", "-K", "-d"]
    if ov:
        args += ["-b", ov, "-I", ov]
    rc, out, err = run_parser(args, timeout=timeout, input_=text.encode("utf-8", "surrogateescape"))
    return rc, out.decode("utf-8", "replace"), err.decode("utf-8", "replace")


AARE_META = set('*?[]{}^"\\,() \t')


def aare_literal(s):
    """Quote a concrete path so that it is a literal AARE."""
    out = []
    for ch in s:
        if ch in '*?[]{}^\\,()"':
            out.append("\\" + ch)
        else:
            out.append(ch)
    lit = "".join(out)
    if " " in lit or "\t" in lit or "#" in lit:
        lit = '"' + lit + '"'
    return lit
