"""C16 - rules generated from logs cover the logged access."""
import os
import re

from . import dfa, logsgen, refparser, worker
from .c09 import source_overlay
from .common import REPO, digest, pmap

MASK_LETTERS = {"r": "r", "w": "w", "a": "w", "c": "w", "d": "w", "m": "m", "k": "k", "l": "l"}


def member(ov, pattern, name, cache):
    """Does AppArmor's automaton for `pattern` (over the shipped tunables) accept the concrete path `name`?
    Returns True / False / ('error', msg) / None (inconclusive)."""
    key = (pattern, name)
    if key in cache:
        return cache[key]
    lit = refparser.aare_literal(name)
    pat = pattern if not (" " in pattern and not pattern.startswith('"')) else '"' + pattern + '"'
    a = "abi <abi/3.0>,\ninclude <tunables/global>\nprofile verif_stub {\n  %s r,\n}\n" % pat
    b = "abi <abi/3.0>,\ninclude <tunables/global>\nprofile verif_stub {\n  %s r,\n  %s r,\n}\n" % (pat, lit)
    rca, ba, ea = refparser.compile_bytes(a, ov=ov, abi=False)
    if rca is None:
        res = None
    elif rca != 0:
        res = ("error", " ".join(l for l in ea.split("\n") if l and not l.startswith("Cache"))[-200:])
    else:
        rcb, bb, eb = refparser.compile_bytes(b, ov=ov, abi=False)
        if rcb is None or rcb != 0:
            res = None
        elif ba == bb:
            res = True
        else:
            # confirm the miss on the automaton of the pattern itself
            _, da = refparser.dfa_dump(a, ov=ov, abi=False)
            A = dfa.parse_dump(da)
            if not A or not A[-1].clean:
                res = None
            else:
                res = bool(A[-1].accepts(name.encode("utf-8", "surrogateescape")))
                if res:
                    res = None      # the two ways of asking disagree: inconclusive
    cache[key] = res
    return res


def rewrite_class(name, pattern):
    """Input/outcome predicate for finding keys: which generalisation left the path uncovered."""
    m = re.findall(r"@\{(\w+)\}", pattern)
    for v in ("busname", "pci", "pci_bus", "uid", "pid", "tid", "int", "hex", "uuid", "arch", "multiarch", "lib", "bin", "HOME", "run", "sys", "PROC", "att"):
        for x in m:
            if x.startswith(v) and ("@{%s" % x) in pattern:
                if v == "busname":
                    return "busname-inside-a-path"
    return "pattern-with-" + ("+".join(sorted(set(m))) or "no-variable")


def run(ctx):
    refparser.require()
    ctx.build_bins()
    rng = ctx.rng
    n = 8000 if ctx.tier == "quick" else 100000
    ctx.rule = ("each generated well-formed kernel record is one case: the real logs.New -> ParseToProfiles -> Merge -> Sort -> Format pipeline "
                "(worker; 1-40 records per profile so that merging happens) must print, under the record's profile, a rule of the right kind "
                "and qualifier that covers it: for file records the emitted pattern must accept the recorded name according to "
                "apparmor_parser's own automaton over the shipped tunables, the access letters must cover the requested mask and `owner` "
                "only when fsuid==ouid; for other classes the recorded capability, family/type, signal, peer, bus/path/interface/member, "
                "socket address and mount attributes must appear in the rule. Non-trivial = records whose name was generalised")
    ov = source_overlay(ctx)
    recs = []
    batches = []
    tag = 0
    while len(recs) < n:
        prof = rng.choice(logsgen.PROFILES)
        k = rng.randint(1, 40)
        chunk = []
        for _ in range(k):
            tag += 1
            r = None
            if chunk and rng.random() < 0.2:
                # a distinct access that differs from an earlier record in one field only: it must not be discarded as a duplicate
                r = logsgen.variant(rng, rng.choice(chunk), tag)
            if r is None:
                r = logsgen.gen_record(rng, tag, profile=prof, tame=rng.random() < 0.8)
            if r["cls"] == "file" and "variant_of" not in r and rng.random() < 0.08 and "/" in r["values"].get("name", ""):
                # two accesses to names that differ only in letter case or in the zero padding of a number: distinct files, both
                # must keep their rule
                sa, sb = rng.choice([("-n7", "-n07"), ("-xa", "-xA"), ("-v10", "-v010"), ("-Rc", "-rc"), ("-résumé", "-rèsumé"), ("-aü", "-aú")])
                tag += 1
                twin = dict(r)
                ts2 = logsgen.tagstr(tag)
                twin["fields"] = [(k, v + sb if k == "name" else ("c" + ts2 if k == "comm" else v)) for (k, v) in r["fields"]]
                twin.update({"tag": tag, "values": dict(twin["fields"]), "name_tag": r["tag"], "twin_suffix": sb})
                r["fields"] = [(k, v + sa if k == "name" else v) for (k, v) in r["fields"]]
                r["values"] = dict(r["fields"])
                r["twin_suffix"] = sa
                chunk.append(r)
                r = twin
            chunk.append(r)
        recs += chunk
        batches.append((prof, chunk))

    def do(group):
        reqs = []
        for i, (prof, chunk) in enumerate(group):
            text = "\n".join(logsgen.render(r["fields"], framing=("dbus-syslog" if r["cls"] == "dbus" else "audit"), serial=j + 1) for j, r in enumerate(chunk)) + "\n"
            reqs.append({"id": i, "do": "new", "text": text, "rules": True})
        return worker.run_isolating(ctx, "logs", reqs, lambda r, e: None, timeout=600)

    groups = [batches[i:i + 20] for i in range(0, len(batches), 20)]
    agg = {}

    def viol(key, what, case):
        agg.setdefault(key, []).append((what, case))

    pending = []     # (record, pattern, name) membership questions
    for group, reps in zip(groups, pmap(do, groups)):
        for (prof, chunk), rep in zip(group, reps):
            if worker.timed_out(ctx, rep):
                continue
            if "ok" not in rep:
                for r in chunk:
                    ctx.case(None)
                viol("C16/pipeline-fails", "ParseToProfiles/Merge/Sort/Format failed: %s" % (rep.get("panic") or rep.get("error") or rep), {"lines": [logsgen.render(r["fields"]) for r in chunk][:10]})
                continue
            rules_by_prof = rep["ok"].get("rules") or {}
            for r in chunk:
                v = r["values"]
                line = logsgen.render(r["fields"])
                pname = v.get("label") if r["cls"] == "dbus" else v.get("profile")
                # a batch holds the records of one profile; its name may have been generalised (profile=) or not (label=)
                rules = [x for pn, rs in rules_by_prof.items() if pn == pname or peer_ok(pn, pname) for x in rs]
                audit = r["status"] == "AUDIT"
                res = check_record(ctx, r, v, rules, audit, pending)
                nt = None
                if res is None:
                    ctx.case(None)
                    continue
                ok, why, gen = res
                ctx.case(digest(line) if gen else None, {"record": line[:300], "rule": why[:200]} if gen and len(ctx.samples) < 6 else None)
                if not ok:
                    viol("C16/not-covered/%s/%s" % (r["cls"], why.split(":")[0]), "%s | record: %s" % (why, line[:400]), {"line": line})
    # path membership questions, decided by the reference parser
    cache = {}
    uniq = {}
    for (r, pattern, name) in pending:
        uniq.setdefault((pattern, name), r)

    def ask(item):
        (pattern, name), r = item
        return (pattern, name), member(ov, pattern, name, cache)

    answers = dict(pmap(ask, list(uniq.items())))
    for (pattern, name), r in uniq.items():
        ans = answers[(pattern, name)]
        line = logsgen.render(r["fields"])
        if ans is True:
            continue
        if ans is None:
            ctx.inconcl("membership of %r in %r undecided" % (name, pattern))
        elif ans is False:
            viol("C16/path-not-covered/%s" % rewrite_class(name, pattern), "the emitted pattern %s does not match the recorded name %s" % (pattern, name), {"line": line, "pattern": pattern})
        else:
            viol("C16/pattern-rejected/%s" % rewrite_class(name, pattern), "the emitted pattern %s is rejected by the reference parser (%s); recorded name %s" % (pattern, ans[1], name),
                 {"line": line, "pattern": pattern})
    for key, lst in sorted(agg.items()):
        ctx.violation(key, "%s  [%d case(s)]" % (lst[0][0][:600], len(lst)), lst[0][1])
    ctx.require(len(uniq) >= 0.2 * len(recs), "only %d path membership questions for %d records" % (len(uniq), len(recs)))
    ctx.extra.update({"records": len(recs), "profiles_batches": len(batches), "membership_questions": len(uniq)})


def has_tag(text, prefix, tagstr, suffix=""):
    """Exact tag match: a tag is a run of letters g..p, so 'zqh' must not match inside 'zqhh'."""
    return re.search(re.escape(prefix + tagstr) + r"(?![g-p])" + re.escape(suffix), text or "") is not None


def F(rule):
    return rule["fields"] if isinstance(rule.get("fields"), dict) else {}


def check_record(ctx, r, v, rules, audit, pending):
    """Returns (ok, why, generalised?) or None when the class is not mapped here."""
    cls = r["cls"]
    tagstr = logsgen.tagstr(r.get("name_tag", r["tag"]))      # a variant keeps the names (and their tags) of its source
    qual_ok = lambda f: bool(f.get("Audit")) == audit and not f.get("AccessType")
    if cls in ("file", "exec", "link"):
        name = v["name"]
        mask = v["requested_mask"]
        kind = "link" if mask == "l" else "file"
        cands = [x for x in rules if x["kind"] == kind and has_tag(F(x).get("Path", ""), "zq", tagstr)]
        if r.get("twin_suffix"):
            cands = [x for x in cands if F(x).get("Path", "").endswith(r["twin_suffix"])]
        if not cands:
            return (False, "no-rule: no %s rule for %s" % (kind, name), False)
        ok_any = False
        why = ""
        for x in cands:
            f = F(x)
            if not qual_ok(f):
                why = "qualifier: rule `%s` for a %s record" % (x["text"], r["status"])
                continue
            if f.get("Owner") and not (v.get("fsuid") == v.get("ouid")):
                why = "owner: `%s` says owner, the record has fsuid=%s ouid=%s" % (x["text"], v.get("fsuid"), v.get("ouid"))
                continue
            if kind == "file":
                acc = f.get("Access") or []
                letters = set("".join(a for a in acc if len(a) == 1))
                need = set()
                bad = None
                for ch in mask:
                    if ch == "x":
                        if not any(a.endswith("x") for a in acc):
                            bad = "access: requested x, rule has %s" % acc
                    elif ch == "a":
                        if not ({"a", "w"} & letters):
                            bad = "access: requested a, rule `%s`" % x["text"]
                    elif ch in MASK_LETTERS:
                        need.add(MASK_LETTERS[ch])
                if need - letters:
                    bad = "access: requested %s, rule `%s`" % (mask, x["text"])
                if bad:
                    why = bad
                    continue
            else:
                if not has_tag(f.get("Target", ""), "lzq", tagstr):
                    why = "link-target: `%s` does not name the target %s" % (x["text"], v.get("target"))
                    continue
                pending.append((r, f["Target"], v["target"]))
            pending.append((r, f["Path"], name))
            ok_any = True
            return (True, x["text"], f["Path"] != name)
        return (False, why, False)
    if cls == "cap":
        ok = any(x["kind"] == "capability" and v["capname"] in (F(x).get("Names") or []) and qual_ok(F(x)) for x in rules)
        return (ok, "capability: %s not in any capability rule" % v["capname"], False)
    if cls == "net":
        ok = any(x["kind"] == "network" and F(x).get("Domain") == v["family"] and F(x).get("Type") in (v["sock_type"], "") and qual_ok(F(x)) for x in rules)
        return (ok, "network: no rule for family=%s type=%s" % (v["family"], v["sock_type"]), False)
    if cls == "unix":
        want = set(v["requested_mask"].split())
        ok = any(x["kind"] == "unix" and F(x).get("Type") == v["sock_type"] and F(x).get("Address") == v["addr"] and F(x).get("PeerAddr") == v["peer_addr"]
                 and want <= set(F(x).get("Access") or want) and F(x).get("PeerLabel") and qual_ok(F(x)) for x in rules)
        return (ok, "unix: no rule for type=%s addr=%s peer_addr=%s mask=%s" % (v["sock_type"], v["addr"], v["peer_addr"], v["requested_mask"]), False)
    if cls == "signal":
        ok = any(x["kind"] == "signal" and v["signal"] in (F(x).get("Set") or [v["signal"]]) and v["requested_mask"] in (F(x).get("Access") or [v["requested_mask"]])
                 and F(x).get("Peer") and qual_ok(F(x)) and peer_ok(F(x).get("Peer"), v["peer"]) for x in rules)
        return (ok, "signal: no rule for %s %s peer=%s" % (v["requested_mask"], v["signal"], v["peer"]), False)
    if cls == "ptrace":
        ok = any(x["kind"] == "ptrace" and v["requested_mask"] in (F(x).get("Access") or [v["requested_mask"]]) and peer_ok(F(x).get("Peer"), v["peer"]) and qual_ok(F(x)) for x in rules)
        return (ok, "ptrace: no rule for %s peer=%s" % (v["requested_mask"], v["peer"]), False)
    if cls == "dbus":
        if v["mask"] == "bind":
            ok = any(x["kind"] == "dbus" and "bind" in (F(x).get("Access") or []) and F(x).get("Bus") == v["bus"] and has_tag(F(x).get("Name", ""), "T", tagstr) and qual_ok(F(x)) for x in rules)
            return (ok, "dbus: no bind rule for %s on %s" % (v["name"], v["bus"]), False)
        ok = any(x["kind"] == "dbus" and v["mask"] in (F(x).get("Access") or [v["mask"]]) and F(x).get("Bus") == v["bus"] and F(x).get("Path") == v["path"]
                 and F(x).get("Interface") == v["interface"] and F(x).get("Member") == v["member"] and F(x).get("PeerLabel") and qual_ok(F(x)) for x in rules)
        return (ok, "dbus: no rule for %s %s %s.%s on %s" % (v["mask"], v["path"], v["interface"], v["member"], v["bus"]), False)
    if cls in ("mount", "remount", "umount", "pivotroot"):
        kind = {"pivotroot": "pivot_root"}.get(cls, cls)
        for x in rules:
            f = F(x)
            if x["kind"] != kind or not qual_ok(f):
                continue
            point = f.get("MountPoint") if kind != "pivot_root" else f.get("NewRoot")
            if not has_tag(point, "/m", tagstr, "/"):
                continue
            if kind in ("mount", "remount"):
                if f.get("FsType") != v.get("fstype"):
                    continue
                flags = set(x.strip() for x in v.get("flags", "").split(","))
                if not flags <= set(f.get("Options") or []):
                    continue
            if kind == "mount" and v.get("srcname") and not f.get("Source"):
                continue
            pending.append((r, point, v["name"]))
            return (True, x["text"], point != v["name"])
        return (False, "%s: no rule for %s" % (kind, v.get("name")), False)
    if cls == "change_onexec":
        ok = any(x["kind"] == "change_profile" and F(x).get("ProfileName") and qual_ok(F(x)) for x in rules)
        return (ok, "change_profile: no rule for target %s" % v.get("target"), False)
    if cls == "mqueue":
        ok = any(x["kind"] == "mqueue" and has_tag(F(x).get("Name", ""), "/q", tagstr) for x in rules)
        return (ok, "mqueue: no rule for %s" % v.get("name"), False)
    if cls == "io_uring":
        ok = any(x["kind"] == "io_uring" and v["requested"] in (F(x).get("Access") or []) for x in rules)
        return (ok, "io_uring: no rule for %s" % v["requested"], False)
    if cls == "rlimit":
        ok = any(x["kind"] == "rlimit" and F(x).get("Key") == v["rlimit"] and str(F(x).get("Value")) == v["value"] and F(x).get("Op") == "<=" for x in rules)
        return (ok, "rlimit: no `set rlimit %s <= %s` rule" % (v["rlimit"], v["value"]), False)
    if cls == "userns":
        ok = any(x["kind"] == "userns" for x in rules)
        return (ok, "userns: no rule", False)
    return None


def peer_ok(pattern, peer):
    """Peer names are generalised like paths; a cheap literal/glob check is enough for the generated pool."""
    if not pattern:
        return False
    if pattern == peer:
        return True
    rx = re.escape(pattern).replace(r"@\{", "@{")
    rx = re.sub(r"@\{\w+\\\}", ".*", rx).replace(r"\*", ".*")
    return re.fullmatch(rx, peer) is not None
