"""Seeded generator of AppArmor rules with an independent canonical printer.

A rule is a dict whose keys are named like the fields the library reports for that kind
(so that intent and observation can be compared field by field)."""
import re

AA3_KINDS = ["file", "link", "capability", "network", "mount", "remount", "umount", "pivot_root",
             "change_profile", "signal", "ptrace", "unix", "dbus", "rlimit"]
AA4_KINDS = ["userns", "mqueue", "io_uring", "all"]
ALL_KINDS = AA3_KINDS + AA4_KINDS

PREFIXES = ["@{exec_path}", "@{sh_path}", "@{coreutils_path}", "@{open_path}", "@{bin}", "@{lib}", "/opt", "/usr/share", "/etc",
            "/var", "/boot", "/home", "@{HOME}", "@{user_cache_dirs}", "@{user_config_dirs}", "@{user_share_dirs}", "/tmp",
            "@{tmp}", "/dev/shm", "@{run}", "@{sys}", "@{PROC}", "/dev"]
UNKNOWN_PREFIXES = ["/weird", "/Weird", "/srv", "/usr/lib", "/mnt"]
TAILS = ["/a", "/A", "/{a,b}", "/{a,{b,c}}", "/*", "/**", "/[0-9]*", "/x#y", "/foo.d/", "/b/", "/b/c", "/a-b_c.d", "/B/c", "/ab", "/aB", "/+pci:*", "/c+d=e", "/a,b", "/c,d/"]
CAPS = ["audit_control", "chown", "dac_override", "dac_read_search", "fowner", "kill", "mknod", "net_admin", "net_bind_service",
        "net_raw", "setgid", "setuid", "sys_admin", "sys_chroot", "sys_nice", "sys_ptrace", "sys_resource", "syslog"]
DOMAINS = ["inet", "inet6", "unix", "netlink", "packet", "bluetooth"]
NTYPES = ["stream", "dgram", "raw", "seqpacket"]
NPROTO = ["tcp", "udp", "icmp"]
SIGNALS = ["hup", "int", "kill", "term", "usr1", "usr2", "stop", "cont", "chld", "winch", "exists", "rtmin+8", "rtmin+0", "rtmin+31", "rtmin+32"]
PEERS = ["foo", "bar", "Foo", "firefox", "gnome-*", "@{p_systemd}", "snap.firefox.firefox", "foo//bar", "unconfined", "/usr/bin/foo"]
PTRACE = ["read", "readby", "trace", "tracedby"]
UNIX_ACC = ["create", "bind", "listen", "accept", "connect", "shutdown", "getattr", "setattr", "getopt", "setopt", "send", "receive"]
UNIX_LOCAL = ["create", "bind", "listen", "shutdown", "getattr", "setattr", "getopt", "setopt"]
BUSES = ["system", "session", "accessibility"]
DBUS_PATHS = ["/org/freedesktop/DBus", "/org/gnome/Shell{,/**}", "/", "/org/a11y/bus", "/org/Foo/bar"]
DBUS_IFACES = ["org.freedesktop.DBus.Properties", "org.gnome.Shell{,.*}", "org.Foo.Bar", "org.foo.bar"]
DBUS_MEMBERS = ["Get", "{Get,GetAll}", "PropertiesChanged", "Hello", "get"]
DBUS_NAMES = ["org.freedesktop.DBus", ":1.@{int}", "org.gnome.Shell{,.*}", "\"@{busname}\"", "org.Foo"]
RLIMITS = ["cpu", "fsize", "data", "stack", "core", "nofile", "as", "nproc", "memlock", "nice", "rtprio"]
FSTYPES = ["ext4", "tmpfs", "proc", "sysfs", "(ext3 ext4)"]
MOPTS = ["ro", "rw", "bind", "rbind", "nosuid", "nodev", "noexec", "remount", "private", "rprivate", "slave", "rslave", "move", "silent"]
TRANSITIONS = ["ix", "ux", "Ux", "px", "Px", "cx", "Cx", "pix", "Pix", "cix", "Cix", "pux", "PUx", "cux", "CUx"]
TARGETS = ["foo", "bar", "parent//child", "Foo", "child-open"]
MQ_ACC = ["read", "write", "create", "open", "delete", "getattr", "setattr"]


def gen_path(rng, known=None):
    if known is None:
        known = rng.random() < 0.7
    p = rng.choice(PREFIXES if known else UNKNOWN_PREFIXES)
    if rng.random() < 0.08:
        # the prefix is followed directly by something else than '/' (as in @{lib}{,exec}/..., @{bin}{,/}, /etc.d/...)
        return p + rng.choice(["{,exec}/foo", "-x/a", "{,/}", ".d/x", "2/a", "{,64}/b/"])
    return p + rng.choice(TAILS)


def gen_dir(rng):
    p = gen_path(rng)
    return p if p.endswith("/") else p + "/"


def qual(rng, allow_deny=True):
    r = rng.random()
    q = {"Audit": False, "AccessType": ""}
    if r < 0.12:
        q["Audit"] = True
    elif r < 0.24 and allow_deny:
        q["AccessType"] = "deny"
    elif r < 0.28 and allow_deny:
        q["Audit"] = True
        q["AccessType"] = "deny"
    return q


def subset(rng, pool, lo, hi):
    k = rng.randint(lo, min(hi, len(pool)))
    return rng.sample(pool, k)


def gen_rule(rng, kind=None, kinds=None):
    kind = kind or rng.choice(kinds or ALL_KINDS)
    r = {"kind": kind, "Comment": ""}
    if kind == "file":
        r.update(qual(rng))
        r["Owner"] = rng.random() < 0.3
        r["Path"] = gen_path(rng)
        if rng.random() < 0.08:
            r["Path"] = '"' + rng.choice(["/opt/my app/a", "/home/*/My Docs/**", "@{HOME}/a b"]) + '"'
        acc = subset(rng, ["m", "r", "w", "l", "k"], 0, 3)
        if "w" in acc and rng.random() < 0.0:
            pass
        trans = None
        if r["AccessType"] == "deny":
            if rng.random() < 0.2:
                trans = "x"
        elif rng.random() < 0.35:
            trans = rng.choice(TRANSITIONS)
        if not acc and not trans:
            acc = ["r"]
        r["Access"] = acc + ([trans] if trans else [])
        r["Target"] = ""
        if trans and trans[0] in "pPcC" and rng.random() < 0.4:
            r["Target"] = rng.choice(TARGETS)
    elif kind == "link":
        r.update(qual(rng))
        r["Owner"] = rng.random() < 0.3
        r["Subset"] = rng.random() < 0.3
        r["Path"] = gen_path(rng)
        r["Target"] = gen_path(rng)
    elif kind == "capability":
        r.update(qual(rng))
        r["Names"] = subset(rng, CAPS, 0 if rng.random() < 0.1 else 1, 3)
    elif kind == "network":
        r.update(qual(rng))
        r["Domain"] = rng.choice(DOMAINS + [""])
        r["Type"] = ""
        r["Protocol"] = ""
        x = rng.random()
        if r["Domain"] and x < 0.4:
            r["Type"] = rng.choice(NTYPES)
        elif r["Domain"] in ("inet", "inet6") and x < 0.6:
            r["Protocol"] = rng.choice(NPROTO)
    elif kind in ("mount", "remount", "umount"):
        r.update(qual(rng))
        # (umount takes the same conditions as mount; most real umount rules have none)
        r["FsType"] = rng.choice(["", "", "ext4", "tmpfs", "proc"]) if kind != "umount" or rng.random() < 0.25 else ""
        r["Options"] = subset(rng, MOPTS, 0, 3) if kind != "umount" or rng.random() < 0.25 else []
        if kind == "mount":
            r["Source"] = rng.choice(["", "/dev/sda1", "tmpfs", "/dev/**", gen_dir(rng)])
            r["MountPoint"] = rng.choice(["", gen_dir(rng), "/mnt/**/"])
        else:
            r["MountPoint"] = rng.choice([gen_dir(rng), "/mnt/**/", "/"])
    elif kind == "pivot_root":
        r.update(qual(rng))
        r["OldRoot"] = rng.choice(["", "/mnt/root/old/", gen_dir(rng)])
        r["NewRoot"] = rng.choice(["", "/mnt/root/", gen_dir(rng)])
        r["TargetProfile"] = rng.choice(["", "foo", "pivoted"]) if r["NewRoot"] else ""
    elif kind == "change_profile":
        r.update(qual(rng))
        r["Exec"] = rng.choice(["", "", gen_path(rng)])
        r["ExecMode"] = rng.choice(["", "safe", "unsafe"]) if r["Exec"] else ""
        r["ProfileName"] = rng.choice(TARGETS + ["", "libvirt-@{uuid}"])
    elif kind == "signal":
        r.update(qual(rng))
        r["Access"] = subset(rng, ["send", "receive"], 0, 2)
        r["Set"] = subset(rng, SIGNALS, 0, 4)
        r["Peer"] = rng.choice(PEERS + ["", ""])
    elif kind == "ptrace":
        r.update(qual(rng))
        r["Access"] = subset(rng, PTRACE, 0, 3)
        r["Peer"] = rng.choice(PEERS + ["", ""])
    elif kind == "unix":
        r.update(qual(rng))
        peer = rng.random() < 0.5
        r["Access"] = subset(rng, [a for a in UNIX_ACC if not (peer and a in UNIX_LOCAL)], 0, 4)
        r["Type"] = rng.choice(["", "stream", "dgram", "seqpacket"])
        r["Protocol"] = ""      # (protocol=, attr= and opt= are rejected by the reference parser: outside the domain of valid rules)
        r["Address"] = rng.choice(["", "none", "@/tmp/.X11-unix/X0", "@/tmp/.ICE-unix/@{int}"])
        r["Label"] = rng.choice(["", "foo"]) if not peer or rng.random() < 0.3 else ""
        r["Attr"] = ""
        r["Opt"] = ""
        r["PeerLabel"] = rng.choice(PEERS + [""]) if peer else ""
        r["PeerAddr"] = rng.choice(["", "none", "@/tmp/dbus-@{rand8}"]) if peer else ""
        if peer and not r["PeerLabel"] and not r["PeerAddr"]:      # a peer by address only is the common shipped shape
            r["PeerAddr"] = "@/tmp/.X11-unix/X@{int}"
    elif kind == "dbus":
        r.update(qual(rng))
        x = rng.random()
        if x < 0.2:
            r.update({"Access": ["bind"], "Bus": rng.choice(BUSES), "Name": rng.choice(["org.Foo", "org.gnome.Shell{,.*}"]),
                      "Path": "", "Interface": "", "Member": "", "PeerName": "", "PeerLabel": ""})
        else:
            r["Access"] = subset(rng, ["send", "receive"], 0, 2)
            r["Bus"] = rng.choice(BUSES + [""])
            r["Name"] = ""
            r["Path"] = rng.choice(DBUS_PATHS + [""])
            r["Interface"] = rng.choice(DBUS_IFACES + [""])
            r["Member"] = rng.choice(DBUS_MEMBERS + [""]) if r["Interface"] else ""
            r["PeerName"] = rng.choice(DBUS_NAMES + ["", ""])
            r["PeerLabel"] = rng.choice(PEERS[:6] + ["", ""])
    elif kind == "rlimit":
        r["Key"] = rng.choice(RLIMITS)
        r["Op"] = "<="
        r["Value"] = rng.choice(["infinity", "1024", "0", "8M", "100"]) if r["Key"] not in ("cpu", "nice", "rtprio") else rng.choice(["infinity", "10", "0"])
    elif kind == "userns":
        r.update(qual(rng))
        r["Create"] = True
    elif kind == "mqueue":
        r.update(qual(rng))
        r["Access"] = subset(rng, MQ_ACC, 1, 3)
        r["Type"] = rng.choice(["posix", "sysv", ""])
        r["Label"] = rng.choice(["", "foo"])
        r["Name"] = rng.choice(["/q", "/queue-*", "1234"]) if r["Type"] != "sysv" else rng.choice(["1234", "42"])
        if rng.random() < 0.06:
            r["Name"] = ""        # valid AppArmor 4 syntax: all queues (dedicated stratum, see finding C09/.../no-name)
    elif kind == "io_uring":
        r.update(qual(rng))
        r["Access"] = subset(rng, ["sqpoll", "override_creds"], 1, 2)
        r["Label"] = rng.choice(["", "foo"])
    elif kind == "all":
        pass
    if rng.random() < 0.1 and kind != "all":
        r["Comment"] = rng.choice([" a comment", " TODO: check", " why, though?", " for the 7\" panel", " don't ask", " see \"the docs\"",
                                   # the comments the tool itself writes on rules built from log records
                                   " file_inherit", " no new privs", " optional: see the docs", " file_inherit (from the parent)",
                                   # free text that merely mentions a marker (8 such comments in the shipped tree), unbalanced brackets
                                   " Not in a subprofile because of no new privs", " TODO: confine (see the notes below", " 1) main configuration", " :(", " ends with a brace {", " see issue #12 upstream", " #hashtag"])
    return r


def q_prefix(r):
    s = ""
    if r.get("Audit"):
        s += "audit "
    if r.get("AccessType"):
        s += r["AccessType"] + " "
    return s


def plist(xs):
    return "(" + ", ".join(xs) + ")"


def canon(r):
    """The harness's own plain rendering of a rule (one statement, lists parenthesised and comma separated)."""
    k = r["kind"]
    if "text" in r:
        return r["text"]          # line rules (comment, include) carried verbatim
    s = q_prefix(r)
    if k == "file":
        if r["Owner"]:
            s += "owner "
        s += r["Path"] + " " + "".join(r["Access"])
        if r["Target"]:
            s += " -> " + r["Target"]
    elif k == "link":
        if r["Owner"]:
            s += "owner "
        s += "link "
        if r["Subset"]:
            s += "subset "
        s += r["Path"] + " -> " + r["Target"]
    elif k == "capability":
        s += "capability " + " ".join(r["Names"])
    elif k == "network":
        s += "network"
        for f in ("Domain", "Type", "Protocol"):
            if r[f]:
                s += " " + r[f]
    elif k in ("mount", "remount", "umount"):
        s += k
        if r["FsType"]:
            s += " fstype=" + r["FsType"]
        if r["Options"]:
            s += " options=" + plist(r["Options"])
        if k == "mount":
            if r["Source"]:
                s += " " + r["Source"]
            if r["MountPoint"]:
                s += " -> " + r["MountPoint"]
        elif r["MountPoint"]:
            s += " " + r["MountPoint"]
    elif k == "pivot_root":
        s += "pivot_root"
        if r["OldRoot"]:
            s += " oldroot=" + r["OldRoot"]
        if r["NewRoot"]:
            s += " " + r["NewRoot"]
        if r["TargetProfile"]:
            s += " -> " + r["TargetProfile"]
    elif k == "change_profile":
        s += "change_profile"
        if r["ExecMode"]:
            s += " " + r["ExecMode"]
        if r["Exec"]:
            s += " " + r["Exec"]
        if r["ProfileName"]:
            s += " -> " + r["ProfileName"]
    elif k == "signal":
        s += "signal"
        if r["Access"]:
            s += " " + plist(r["Access"])
        if r["Set"]:
            s += " set=" + plist(r["Set"])
        if r["Peer"]:
            s += " peer=" + r["Peer"]
    elif k == "ptrace":
        s += "ptrace"
        if r["Access"]:
            s += " " + plist(r["Access"])
        if r["Peer"]:
            s += " peer=" + r["Peer"]
    elif k == "unix":
        s += "unix"
        if r["Access"]:
            s += " " + plist(r["Access"])
        if r["Type"]:
            s += " type=" + r["Type"]
        if r["Protocol"]:
            s += " protocol=" + r["Protocol"]
        if r["Address"]:
            s += " addr=" + r["Address"]
        if r["Label"]:
            s += " label=" + r["Label"]
        if r.get("Attr"):
            s += " attr=" + r["Attr"]
        if r.get("Opt"):
            s += " opt=" + r["Opt"]
        peer = []
        if r["PeerLabel"]:
            peer.append("label=" + r["PeerLabel"])
        if r["PeerAddr"]:
            peer.append("addr=" + r["PeerAddr"])
        if peer:
            s += " peer=(" + ", ".join(peer) + ")"
    elif k == "dbus":
        s += "dbus"
        if r["Access"]:
            s += " " + plist(r["Access"])
        if r["Bus"]:
            s += " bus=" + r["Bus"]
        if r["Name"]:
            s += " name=" + r["Name"]
        if r["Path"]:
            s += " path=" + r["Path"]
        if r["Interface"]:
            s += " interface=" + r["Interface"]
        if r["Member"]:
            s += " member=" + r["Member"]
        peer = []
        if r["PeerName"]:
            peer.append("name=" + r["PeerName"])
        if r["PeerLabel"]:
            peer.append("label=" + r["PeerLabel"])
        if peer:
            s += " peer=(" + ", ".join(peer) + ")"
    elif k == "rlimit":
        s += "set rlimit %s %s %s" % (r["Key"], r["Op"], r["Value"])
    elif k == "userns":
        s += "userns"
    elif k == "mqueue":
        s += "mqueue"
        if r["Access"]:
            s += " " + plist(r["Access"])
        if r["Type"]:
            s += " type=" + r["Type"]
        if r["Label"]:
            s += " label=" + r["Label"]
        if r["Name"]:
            s += " " + r["Name"]
    elif k == "io_uring":
        s += "io_uring"
        if r["Access"]:
            s += " " + plist(r["Access"])
        if r["Label"]:
            s += " label=" + r["Label"]
    elif k == "all":
        s += "all"
    s += ","
    if r.get("Comment"):
        s += " #" + r["Comment"]
    return s


SET_FIELDS = {"Access", "Names", "Options", "Set"}
IGNORED = {"Paddings", "IsLineRule", "NoNewPrivs", "FileInherit", "Optional"}


def normalise_fields(kind, f):
    """Library field dump -> comparable dict (set-valued fields as sorted lists, nil == empty)."""
    out = {}
    for k, v in f.items():
        if k in IGNORED:
            continue
        if isinstance(v, list) or v is None and k in SET_FIELDS:
            v = sorted(v or [])
        if v is None:
            v = ""
        out[k] = v
    # the trailing comment of a rule is what the library prints after '#': the three tool markers it keeps as flags, then the text
    if "Comment" in out or any(f.get(x) for x in ("FileInherit", "NoNewPrivs", "Optional")):
        out["Comment"] = ((" file_inherit" if f.get("FileInherit") else "") + (" no new privs" if f.get("NoNewPrivs") else "")
                          + (" optional:" if f.get("Optional") else "") + (out.get("Comment") or ""))
    return out


def intent_fields(r):
    out = {}
    for k, v in r.items():
        if k == "kind":
            continue
        if isinstance(v, list):
            v = sorted(v)
        out[k] = v
    return out


def compare_intent(r, kind, fields):
    """Differences between the generator's intent and what the library parsed."""
    if kind != r["kind"]:
        return ["kind %s != %s" % (kind, r["kind"])]
    got = normalise_fields(kind, fields)
    want = intent_fields(r)
    diffs = []
    for k, v in want.items():
        g = got.get(k, "" if not isinstance(v, (list, bool)) else ([] if isinstance(v, list) else False))
        if k == "Access" and kind == "file":
            if sorted(g) != sorted(v):
                diffs.append("%s: %r != %r" % (k, g, v))
            continue
        if g != v:
            diffs.append("%s: %r != %r" % (k, g, v))
    return diffs
