"""C02 - prebuild output is reproducible (same tree + configuration => same bytes; the text
produced for a file does not depend on what was processed before it in the same process)."""
import os
import re
import shutil

from . import matrix, worker
from .c04 import make_junk
from .common import REPO, HarnessError, digest, pmap

RE_GEN = re.compile(r"#aa:(dbus|exec|stack)\b")


def full_manifest(b):
    m = matrix.manifest(b.root)
    try:
        m["(tap)tasks.txt"] = ("f", digest(open(os.path.join(b.tap, "tasks.txt")).read()))
    except (OSError, TypeError):
        pass
    m["(src)debian/apparmor.d.hide"] = ("f", digest(b.hide or ""))
    return m


def diff_manifest(a, b):
    out = []
    for k in sorted(set(a) | set(b)):
        if a.get(k) != b.get(k):
            out.append(k)
    return out


def run(ctx):
    ctx.build_bins()
    rng = ctx.rng
    if ctx.tier == "thorough":
        cfgs = [matrix.Cfg(d, a, v, rng.choice(matrix.MODES), f) for d in matrix.DISTS for a in matrix.ABIS
                for v in matrix.VERS for f in matrix.FULLS]
        cfgs += [matrix.Cfg(d, a, v, m, f) for d in ("arch", "whonix") for a in matrix.ABIS for v in matrix.VERS
                 for m in matrix.MODES for f in matrix.FULLS]
        cfgs = sorted(set(cfgs))
        reps = 8
    else:
        cfgs = [matrix.Cfg(d, rng.choice(matrix.ABIS), rng.choice(matrix.VERS), rng.choice(matrix.MODES), f)
                for d in matrix.DISTS for f in matrix.FULLS]
        reps = 6
    ctx.rule = ("(a) each (configuration, re-run) pair is one case: a real prebuild run from a clean directory, a second one, one on a "
                "build directory left by a different configuration + junk, and extra repetitions for configurations with "
                "multi-argument stack/exec directives, compared by sha256 of every output file/symlink; (b) each file with a "
                "generating directive run 20x in one process; (c) each file run alone in a fresh process vs inside seed-drawn "
                "sequences of other files in one process. Non-trivial = re-runs on a dirty directory, repetitions of multi-argument "
                "directive configurations, and (file, sequence) pairs")
    # --- (a) CLI level ---------------------------------------------------------------
    jobs = []
    for c in cfgs:
        jobs.append((c, "A", None))
        jobs.append((c, "B", None))
        if c.full == "full" or c.dist == "whonix":
            for i in range(reps):
                jobs.append((c, "R%d" % i, None))
    ctx.build_bins()
    first = pmap(lambda j: (j, matrix.run_build(ctx, j[0], tag=j[1], tap=True)), jobs)
    by_cfg = {}
    for (c, tag, _), b in first:
        by_cfg.setdefault(c, {})[tag] = b
    # dirty-history runs need a finished build of another configuration
    ok_builds = [bs["A"] for c, bs in sorted(by_cfg.items()) if bs["A"].rc == 0]

    def dirty(c):
        others = [o for o in ok_builds if o.cfg.dist != c.dist and o.cfg.full != c.full] or ok_builds
        o = others[int(digest(c.id, str(ctx.seed))[:8], 16) % len(others)]
        junk = make_junk(ctx, o.root)
        b = matrix.run_build(ctx, c, tag="C", tap=True, prior=junk)
        shutil.rmtree(junk, ignore_errors=True)
        return c, b, o.cfg.id

    for c, b, oid in pmap(dirty, cfgs):
        by_cfg[c]["C(after %s+junk)" % oid] = b
    for c in cfgs:
        bs = by_cfg[c]
        ref = bs["A"]
        if ref.rc != 0:
            ctx.violation("C02/build-failed/" + c.id, "prebuild failed: " + ref.log[-300:], {"cfg": c.id})
            continue
        mref = full_manifest(ref)
        for tag, b in sorted(bs.items()):
            if tag == "A":
                continue
            nt = digest(c.id, tag) if (tag.startswith("C") or tag.startswith("R")) else None
            ctx.case(nt, {"cfg": c.id, "run": tag} if tag.startswith("C") else None)
            if b.rc != 0:
                ctx.violation("C02/rerun-failed/%s/%s" % (c.id, tag[0]), "run %s of %s failed (rc %s) while run A succeeded: %s" % (
                    tag, c.id, b.rc, b.log[-300:]), {"cfg": c.id, "run": tag})
                continue
            d = diff_manifest(mref, full_manifest(b))
            if d:
                kind = "history" if tag.startswith("C") else "rerun"
                ctx.violation("C02/%s-differs/%s" % (kind, d[0]),
                              "%s: run %s differs from run A in %d path(s): %s" % (c.id, tag, len(d), ", ".join(d[:6])),
                              {"cfg": c.id, "run": tag, "paths": d[:50]})
    ctx.extra["cli_configurations"] = len(cfgs)
    ctx.extra["cli_runs"] = sum(len(v) for v in by_cfg.values())
    # --- (a') the same builds under the race detector ------------------------------------------
    from . import race
    rb = race.build(ctx)
    rl = race.logdir(ctx, "prebuild")
    picks = [c for c in cfgs if by_cfg[c]["A"].rc == 0]
    picks = ([c for c in picks if c.full == "full"][:1] + [c for c in picks if c.full != "full"][:1]) if ctx.tier == "quick" else picks[:12]
    for c, b in pmap(lambda c: (c, matrix.run_build(ctx, c, tag="race", tap=False, bindir=rb, extra_env={"GORACE": race.gorace(rl)}, timeout=1500)), picks):
        ctx.case(digest(c.id, "race"))
        if b.rc != 0:
            ctx.violation("C02/rerun-failed/%s/race" % c.id, "the -race build of prebuild failed (rc %s) where the plain one succeeded: %s" % (b.rc, b.log[-300:]), {"cfg": c.id})
        else:
            d = [k for k in diff_manifest(full_manifest(by_cfg[c]["A"]), full_manifest(b)) if not k.startswith("(tap)")]
            if d:
                ctx.violation("C02/rerun-differs/%s" % d[0], "%s: the run under the race detector differs from run A in %d path(s): %s" % (c.id, len(d), ", ".join(d[:6])),
                              {"cfg": c.id, "paths": d[:50]})
        shutil.rmtree(b.root, ignore_errors=True)
    race.judge(ctx, "C02", rl, "prebuild, %d configurations" % len(picks), len(picks))
    # --- (b), (c) API level ------------------------------------------------------------
    api_level(ctx, by_cfg)
    for bs in by_cfg.values():
        for b in bs.values():
            shutil.rmtree(b.root, ignore_errors=True)
            if b.tap:
                shutil.rmtree(b.tap, ignore_errors=True)


def api_level(ctx, by_cfg):
    rng = ctx.rng
    # choose up to two finished builds as workbench: one --full (many stack args) and whonix if present
    picks = []
    for c, bs in sorted(by_cfg.items()):
        if bs["A"].rc == 0 and c.full == "full" and not any(p.cfg.dist == c.dist for p in picks):
            picks.append(bs["A"])
    picks = picks[:2] if ctx.tier == "quick" else picks
    nseq_total = 0
    for b in picks:
        built = os.path.join(b.tap, "built", "apparmor.d")
        files = []
        for dp, dns, fns in os.walk(built):
            for fn in fns:
                p = os.path.join(dp, fn)
                t = matrix.read(p)
                if RE_GEN.search(t):
                    files.append((os.path.relpath(p, built), t))
        files.sort()
        base = {"do": "directive", "root": b.root, "abi": int(b.cfg.abi), "version": float(b.cfg.ver)}
        envx = {"DISTRIBUTION": b.cfg.dist}
        gen = generated_hosts(rng, b, 12 if ctx.tier == "quick" else 120)
        files += gen

        def req(rel, text, repeat=1, i=0):
            r = dict(base)
            r.update({"id": "%s#%d" % (rel, i), "file": os.path.join(b.root, "apparmor.d", rel), "text": text, "repeat": repeat})
            return r

        # (b) alone, 20x in one fresh process each
        def alone(ft):
            rel, text = ft
            try:
                rep = worker.run_batch(ctx, "prebuild", [req(rel, text, repeat=20)], extra_env=envx, timeout=120)[0]
            except worker.WorkerDied as d:
                return rel, {"died": d.stderr[-300:]}
            return rel, rep

        alone_out = {}
        for rel, rep in pmap(alone, files):
            ctx.case(None)
            if worker.timed_out(ctx, rep):
                continue
            if "ok" not in rep:
                # an error/panic is not a determinism verdict: recorded, consistency is still required below
                alone_out[rel] = ("ERR", rep.get("error") or rep.get("panic") or rep.get("died"))
                continue
            outs = rep["ok"]["outs"]
            if len(outs) != 1:
                ctx.violation("C02/same-process-repeat/%s" % rel,
                              "%s[%s]: 20 calls of directive.Run on the same input gave %d different outputs" % (b.cfg.id, rel, len(outs)),
                              {"cfg": b.cfg.id, "file": rel})
            alone_out[rel] = ("OK", outs[0])
        # (b') the text the real build produced for a file in its own process (tap after directive.Run, thousands of files in
        # one process) vs the text produced alone in a fresh process. Files with exec/stack directives are left out: what those
        # read from the build directory is, legitimately, in another state while the build is under way than afterwards
        expanded = os.path.join(b.tap, "expanded", "apparmor.d")
        n_cmp = 0
        for rel, text in files:
            if rel.startswith("verif-gen-") or "#aa:exec" in text or "#aa:stack" in text or alone_out.get(rel, ("", ""))[0] != "OK":
                continue
            p_exp = os.path.join(expanded, rel)
            if not os.path.exists(p_exp):
                continue
            n_cmp += 1
            ctx.case(digest(b.cfg.id, "in-build", rel))
            if matrix.read(p_exp) != alone_out[rel][1]:
                ctx.violation("C02/carried-state/in-build/%s" % rel,
                              "%s: the text the full build produced for %s differs from the text produced for the same input alone in a fresh process" % (b.cfg.id, rel),
                              {"cfg": b.cfg.id, "file": rel})
        ctx.extra["in_build_vs_alone"] = ctx.extra.get("in_build_vs_alone", 0) + n_cmp
        # self-test: the monitor must see a non-deterministic directive
        st = worker.run_batch(ctx, "prebuild", [req("verif-selftest", "profile x {\n  #aa:verifrand\n  include if exists <local/x>\n}\n", repeat=20)],
                              extra_env=envx)[0]
        if "ok" not in st or len(st["ok"]["outs"]) < 2:
            raise HarnessError("C02 self-test: the non-deterministic stub directive was not seen as such: %r" % (st,))
        ctx.extra["selftest_nondeterminism_seen"] = True
        # (c) sequences
        fmap = dict(files)
        names = [f for f, _ in files]
        stacks = [f for f, t in files if "#aa:stack" in t and "#aa:stack X" not in t]
        xstacks = [f for f, t in files if "#aa:stack X" in t]
        execs = [f for f, t in files if "#aa:exec" in t]
        dbus = [f for f, t in files if "#aa:dbus" in t and "#aa:exec" not in t and "#aa:stack" not in t]
        seqs = []
        for s in stacks[:4]:
            for x in xstacks[:4]:
                seqs.append([s, x])
                seqs.append([x, s])
                seqs.append([s, s, x, s])
        for e in execs[:6]:
            for d in dbus[:2]:
                seqs.append([d, e])
            seqs.append([e, e])
        pairs = sorted(f for f in names if f.startswith("verif-gen-pair-"))
        for a in pairs:
            for b2 in pairs:
                if a != b2 and a.rsplit("-", 1)[0] == b2.rsplit("-", 1)[0]:
                    seqs.append([a, b2])
        nrand = 40 if ctx.tier == "quick" else 600
        special = stacks + xstacks + execs
        for _ in range(nrand):
            k = rng.randint(2, 7)
            s = [rng.choice(special) if special and rng.random() < 0.6 else rng.choice(names) for _ in range(k)]
            seqs.append(s)

        def runseq(seq):
            reqs = [req(rel, fmap[rel], i=i) for i, rel in enumerate(seq)]
            try:
                return seq, worker.run_batch(ctx, "prebuild", reqs, extra_env=envx, timeout=300)
            except worker.WorkerDied as d:
                return seq, d

        for seq, reps in pmap(runseq, seqs):
            nseq_total += 1
            if isinstance(reps, worker.WorkerDied):
                ctx.inconcl("worker died in sequence %s: %s" % (seq, reps.stderr[-200:]))
                continue
            for pos, (rel, rep) in enumerate(zip(seq, reps)):
                ctx.case(digest(b.cfg.id, rel, "|".join(seq[:pos])) if pos else None,
                         {"cfg": b.cfg.id, "sequence": seq, "position": pos} if pos == len(seq) - 1 else None)
                exp = alone_out.get(rel)
                if exp is None:
                    continue
                got = ("OK", rep["ok"]["outs"][0]) if "ok" in rep else ("ERR", rep.get("error") or rep.get("panic"))
                if got != exp:
                    prev = seq[:pos]
                    ctx.violation("C02/carried-state/%s" % rel,
                                  "%s: text produced for %s after processing %s differs from the text produced alone (%s vs %s)" % (
                                      b.cfg.id, rel, prev, summarize(got), summarize(exp)),
                                  {"cfg": b.cfg.id, "sequence": seq, "position": pos})
    ctx.require(nseq_total >= 40 and picks, "only %d API sequences on %d workbench builds" % (nseq_total, len(picks)))
    ctx.extra["api_sequences"] = nseq_total
    # --- (d) whole builds that differ in which other profiles are processed --------------------
    for b in picks[:1] if ctx.tier == "quick" else picks:
        subset_builds(ctx, b, by_cfg[b.cfg]["A"])


def host_text(name, lines, pre="", var="bin"):
    return ("abi <abi/4.0>,\n\ninclude <tunables/global>\n\n%s@{exec_path} = @{%s}/%s\nprofile %s @{exec_path} {\n"
            "  include <abstractions/base>\n\n  @{exec_path} mr,\n\n%s\n\n  /etc/%s r,\n\n  include if exists <local/%s>\n}\n"
            % (pre, var, name, name, "\n".join(lines), name, name))


def subset_builds(ctx, b, ref):
    """Real prebuild runs of the shipped tree plus generated hosts that name shipped profiles with stack/exec directives:
    S1 holds hosts sorted before (aaa-) and after (zzz-) their targets, S2 only the late ones. Every file of S2 must be
    byte-identical in S1 (the text produced for a profile depends on that profile and the profiles it names only), and
    every shipped file identical to the build without any host."""
    rng = ctx.rng
    profs = [p for p in matrix.top_profiles(b.aad) if not p.endswith(".apparmor.d") and "c" <= p[0].lower() <= "x"]
    cand = []
    for i in range(36):
        kind = rng.choice(["stackX", "stackX", "stack", "exec", "execT"])
        args = rng.sample(profs, rng.randint(1, 2))
        if kind == "stackX":
            line = "  #aa:stack X " + " ".join(args)
        elif kind == "stack":
            line = "  #aa:stack " + " ".join(args)
        elif kind == "exec":
            line = "  #aa:exec " + " ".join(args)
        else:
            line = "  #aa:exec %s %s" % (rng.choice(["P", "U", "PU"]), " ".join(args))
        cand.append((kind, args, line))
    # keep the candidates the real directive code expands without error (an error would abort the whole build)
    reqs = [{"do": "directive", "root": b.root, "abi": int(b.cfg.abi), "version": float(b.cfg.ver), "id": i,
             "file": os.path.join(b.root, "apparmor.d", "verif-probe-%d" % i), "text": host_text("verif-probe-%d" % i, [c[2]]), "repeat": 1}
            for i, c in enumerate(cand)]
    reps = worker.run_isolating(ctx, "prebuild", reqs, lambda r, e: None, extra_env={"DISTRIBUTION": b.cfg.dist}, timeout=300)
    good = [c for c, r in zip(cand, reps) if "ok" in r][:12]
    if len(good) < 4:
        ctx.inconcl("subset builds: only %d usable generated hosts" % len(good))
        return
    # (every third early host appends to a variable of the shipped tunables in its own preamble; the late hosts use those variables)
    early = {"aaa-verif-%d" % i: host_text("aaa-verif-%d" % i, [c[2]], pre=("@{%s} += /opt/aaa-verif-%d/%s\n" % (v_, i, v_)) if i % 3 == 0 else "", var=v_)
             for i, c in enumerate(good) for v_ in [("lib", "bin", "sbin")[i % 3]]}
    # the late hosts name the same targets, each with another directive line of the pool
    late = {}
    for i, c in enumerate(good):
        o = good[(i + 1) % len(good)]
        late["zzz-verif-%d" % i] = host_text("zzz-verif-%d" % i, [c[2], o[2]] if c[2] != o[2] else [c[2]], var=("lib", "bin", "sbin")[i % 3])

    def mut(hosts):
        def m(src):
            d = os.path.join(src, "apparmor.d", "groups", "zz-verif")
            os.makedirs(d, exist_ok=True)
            for n, t in hosts.items():
                with open(os.path.join(d, n), "w") as f:
                    f.write(t)
        return m

    both = dict(early)
    both.update(late)
    s1, s2 = pmap(lambda a: matrix.run_build(ctx, b.cfg, tag=a[0], tap=False, src_mutator=mut(a[1])), [("S1", both), ("S2", late)])
    for tag, sb in (("S1", s1), ("S2", s2)):
        if sb.rc != 0:
            ctx.inconcl("subset build %s of %s failed: %s" % (tag, b.cfg.id, sb.log[-200:]))
    if s1.rc == 0 and s2.rc == 0 and ref.rc == 0:
        m1, m2, m0 = full_manifest(s1), full_manifest(s2), full_manifest(ref)
        hostfile = lambda k: "verif-" in k
        for k in sorted(m2):
            if k.startswith("("):
                continue
            late_host = hostfile(k)
            ctx.case(digest(b.cfg.id, "subset", k) if late_host else None,
                     {"cfg": b.cfg.id, "file": k, "directives": [l.strip() for l in late.get(k.split("/")[-1], "").split("\n") if "#aa:" in l]} if late_host else None)
            if m1.get(k) != m2[k]:
                ctx.violation("C02/depends-on-other-profiles/%s" % ("generated-host" if late_host else k),
                              "%s: %s differs between a build that also processes %d earlier hosts naming the same profiles and one that does not" % (
                                  b.cfg.id, k, len(early)), {"cfg": b.cfg.id, "file": k, "early": early, "late": late})
        for k in sorted(m0):
            if k.startswith("("):
                continue
            if m1.get(k) != m0[k]:
                ctx.violation("C02/depends-on-other-profiles/%s" % k,
                              "%s: shipped file %s differs when %d generated hosts are added to the tree" % (b.cfg.id, k, len(both)),
                              {"cfg": b.cfg.id, "file": k, "early": early, "late": late})
        ctx.extra["subset_builds"] = ctx.extra.get("subset_builds", 0) + 2
        ctx.extra["subset_hosts"] = len(both)
    for sb in (s1, s2):
        shutil.rmtree(sb.root, ignore_errors=True)


def summarize(x):
    kind, v = x
    if kind == "ERR":
        return "error %r" % (v or "")[:80]
    return "sha %s" % digest(v)[:10]


def generated_hosts(rng, b, n):
    """Synthetic host profiles with generated stack/exec directive lines over shipped profiles."""
    aad = b.aad
    profs = [p for p in matrix.top_profiles(aad) if not p.endswith(".apparmor.d")]
    out = []
    hot = rng.sample(profs, 8)        # a few targets shared by many generated directives, with different transitions
    for i in range(n):
        kind = rng.choice(["stack", "stackX", "exec", "execU", "execU", "dbus"])
        k = rng.randint(1, 5)
        args = rng.sample(profs, k)
        if kind.startswith("exec") and rng.random() < 0.7:
            args = rng.sample(hot, rng.randint(1, 3))
        if kind == "dbus":
            # every documented argument combination, in any argument order (interface= together with interface+= included)
            from .c07 import gen_dbus
            line = "\n".join("  #aa:dbus " + gen_dbus(rng) for _ in range(rng.randint(1, 3)))
        elif kind == "stack":
            line = "  #aa:stack " + " ".join(args)
        elif kind == "stackX":
            line = "  #aa:stack X " + " ".join(args)
        elif kind == "exec":
            line = "  #aa:exec " + " ".join(args)
        else:
            line = "  #aa:exec %s %s" % (rng.choice(["P", "U", "p", "u", "PU", "pu"]), " ".join(args))
        name = "verif-gen-%d" % i
        text = ("abi <abi/4.0>,\n\ninclude <tunables/global>\n\n@{exec_path} = @{bin}/%s\nprofile %s @{exec_path} {\n"
                "  include <abstractions/base>\n\n  @{exec_path} mr,\n\n%s\n\n  /etc/%s r,\n\n  include if exists <local/%s>\n}\n"
                % (name, name, line, name, name))
        out.append((name, text))
    # pairs of hosts that name the same target with different transitions (always present, whatever the draws above gave)
    for i, t in enumerate(hot[:3]):
        for j, tr in enumerate(rng.sample(["P", "U", "p", "u", "PU", "pu"], 2)):
            name = "verif-gen-pair-%d-%d" % (i, j)
            out.append((name, host_text(name, ["  #aa:exec %s %s" % (tr, t)])))
    # dbus directives whose expansion iterates over several arguments (both interface keys), in both argument orders
    from .c07 import gen_dbus
    for i in range(4):
        lines = []
        for _ in range(2):
            d = [a for a in gen_dbus(rng).split() if not a.startswith("interface")]
            if d[0] == "common":
                d[0] = rng.choice(["own", "talk"])
                if d[0] == "talk" and not any(a.startswith("label=") for a in d):
                    d.append("label=foo")
            extra = ["interface=org.x.Iface%d" % i, "interface+=org.x.Extra%d" % i]
            rng.shuffle(extra)
            lines.append("  #aa:dbus " + " ".join(d + extra))
        name = "verif-gen-dbus-%d" % i
        out.append((name, host_text(name, lines)))
    return out
