"""C06 - resolved attachments and exec rules match the same executables as @{exec_path}
(translation validation against the reference parser's own automata)."""
import os
import re
import shutil

from . import dfa, matrix, model, refparser, scan, worker
from .common import REPO, digest, pmap

RE_EXEC = re.compile(r"^(\s*)#aa:exec( .*)?$", re.M)
TRANS = ["P", "U", "p", "u", "PU", "pu"]


def preamble_of(text):
    """Source text before the first profile header (includes, variables, comments, abi)."""
    out = []
    for l in text.split("\n"):
        code, _ = scan.strip_comment(l)
        if code.rstrip().endswith("{") and scan.parse_header(code) is not None:
            break
        out.append(l)
    return "\n".join(out) + "\n"


def first_header(text):
    for l in text.split("\n"):
        code, _ = scan.strip_comment(l)
        if code.rstrip().endswith("{"):
            h = scan.parse_header(code)
            if h is not None:
                return h
    return None


def attach_stub(preamble, att):
    return preamble + "profile verif_stub %s {\n}\n" % att


def rules_stub(preamble, paths):
    body = "".join("  %s r,\n" % p for p in paths)
    return preamble + "profile verif_stub {\n%s}\n" % body


class Judge:
    """Compares two stub policies: bytes first, automata when the bytes differ."""

    CACHE = {}      # (texts, tunables digest) -> verdict, shared by all builds of a run

    def __init__(self, ctx, ov, tdig=""):
        self.ctx = ctx
        self.ov = ov
        self.tdig = tdig
        self.cache = Judge.CACHE
        self.programs = 0
        self.disagreements_checked = 0

    def compare(self, a_text, b_text, which=0):
        """Returns ('equal'|'differ'|'reject-a'|'reject-b'|'inconclusive', witness/diagnostic)."""
        key = digest(a_text, b_text, self.tdig)
        if key in self.cache:
            return self.cache[key]
        self.programs += 1
        rca, ba, ea = refparser.compile_bytes(a_text, ov=self.ov, abi=False)
        rcb, bb, eb = refparser.compile_bytes(b_text, ov=self.ov, abi=False)
        if rca is None or rcb is None:
            r = ("inconclusive", "parser timeout")
        elif rca != 0:
            r = ("reject-a", clean_err(ea))
        elif rcb != 0:
            r = ("reject-b", clean_err(eb))
        elif ba == bb:
            r = ("equal", None)
        else:
            self.disagreements_checked += 1
            _, da = refparser.dfa_dump(a_text, ov=self.ov, abi=False)
            _, db = refparser.dfa_dump(b_text, ov=self.ov, abi=False)
            A = dfa.parse_dump(da)
            B = dfa.parse_dump(db)
            if len(A) <= which or len(B) <= which:
                r = ("inconclusive", "no automaton in dump (%d/%d)" % (len(A), len(B)))
            elif not (A[which].clean and B[which].clean):
                r = ("inconclusive", "dump not parseable unambiguously")
            else:
                eq, w = dfa.equivalent(A[which], B[which])
                if eq is None:
                    r = ("inconclusive", "automata too large")
                elif eq:
                    r = ("equal", None)
                else:
                    ws = w.decode("latin-1")
                    side = "only @{exec_path} matches" if A[which].accepts(w) else "only the built text matches"
                    r = ("differ", "%s %r" % (side, ws))
        self.cache[key] = r
        return r


def clean_err(e):
    return " ".join(l for l in e.split("\n") if l and not l.startswith("Cache"))[-300:]


def run(ctx):
    refparser.require()
    ctx.build_bins()
    rng = ctx.rng
    ctx.rule = ("each (profile with an @{exec_path} attachment, tunables variant) is one program pair: stub policy with the variable "
                "(source preamble over the shipped tunables of that build) vs stub with the literal attachment of the built header; each "
                "(exec directive target) likewise with the generated rule paths; plus generated preambles through the real userspace "
                "builder. Pairs are compiled by apparmor_parser -S (equal bytes => equal); pairs whose bytes differ are settled by "
                "language equivalence of the dumped automata with a shortest distinguishing path as witness. Non-trivial = distinct pairs "
                "whose @{exec_path} has more than one value, an alternation, a nested variable or a += (something to resolve)")
    if ctx.tier == "thorough":
        cfgs = [matrix.Cfg(d, "4", v, "none", "full") for d in matrix.DISTS for v in ("4.0", "4.1")]
        cfgs += [matrix.Cfg(d, "3", "3.0", "none", "normal") for d in matrix.DISTS]
    else:
        cfgs = [matrix.Cfg(d, "4", rng.choice(["4.0", "4.1"]), "none", "full") for d in matrix.DISTS]
    builds, bad = matrix.build_many(ctx, cfgs, tap=True)
    for b in bad:
        ctx.violation("C06/build-failed/" + b.cfg.id, "prebuild failed: " + b.log[-300:], {"cfg": b.cfg.id})
    agg = {}
    programs = 0
    disagreements = 0
    samples = []
    seen_pairs = set()
    for b in builds:
        if b.rc != 0:
            continue
        ov = os.path.join(ctx.scratch, "ov6", b.cfg.id)
        refparser.make_overlay(ov, b.aad, b.cfg.ver, b.cfg.abi, setaside=False)
        tdig = refparser.tree_digest(os.path.join(ov, "tunables"), skip_top_files=False)
        judge = Judge(ctx, ov, tdig)
        exp = model.expected(REPO, b.cfg.dist, b.cfg.abi, b.cfg.ver, b.cfg.full == "full")
        jobs = []
        lits = {}
        for rel in matrix.top_profiles(b.aad):
            srcinfo = exp.aad.get(rel)
            if not srcinfo or srcinfo[0] != "F":
                continue
            stext = matrix.read(srcinfo[1])
            sh = first_header(stext)
            if sh is None or sh.attachments != ["@{exec_path}"]:
                continue
            bh = first_header(matrix.read(os.path.join(b.aad, rel)))
            if bh is None:
                continue
            pre = preamble_of(stext)
            lit = " ".join(bh.attachments)
            seen_pairs.add(digest(pre, lit, tdig))
            lits[rel] = lit
            jobs.append((rel, pre, lit))

        def one(j):
            rel, pre, lit = j
            if not lit or lit == "@{exec_path}":
                return j, ("differ", "the built header has no resolved attachment (%r)" % lit)
            return j, judge.compare(attach_stub(pre, "@{exec_path}"), attach_stub(pre, lit))

        for (rel, pre, lit), (verdict, info) in pmap(one, jobs):
            nt = digest(rel, lit) if nontrivial_pre(pre) else None
            ctx.case(nt)
            if len(samples) < 4 and nt:
                samples.append({"profile": rel, "cfg": b.cfg.id, "built_attachment": lit[:160], "verdict": verdict})
            name = rel.replace(".apparmor.d", "")
            if verdict == "differ":
                agg.setdefault("C06/attachment/%s/%s/%s" % (name, b.cfg.dist, digest(lit)[:8]), []).append((b.cfg.id, "%s: built attachment %s vs @{exec_path}: %s" % (name, lit[:200], info)))
            elif verdict == "reject-b":
                agg.setdefault("C06/attachment-rejected/%s" % name, []).append((b.cfg.id, "%s: the built attachment %s is rejected by the parser: %s" % (name, lit[:200], info)))
            elif verdict in ("inconclusive", "reject-a"):
                ctx.inconcl("%s in %s: %s %s" % (rel, b.cfg.id, verdict, info))
        # exec directives: per target, generated rule paths vs @{exec_path} of the target
        targets = set()
        root = os.path.join(REPO, "apparmor.d")
        for dp, dns, fns in os.walk(root):
            for fn in fns:
                t = matrix.read(os.path.join(dp, fn))
                for m in RE_EXEC.finditer(t):
                    for a in (m.group(2) or "").split():
                        if a not in TRANS:
                            targets.add(a)
        profs = [p for p in matrix.top_profiles(b.aad) if not p.endswith(".apparmor.d")]
        extra_t = rng.sample(profs, 60 if ctx.tier == "quick" else 400)
        tlist = sorted(t for t in targets if os.path.exists(os.path.join(b.aad, t))) + extra_t
        reqs = []
        for i, t in enumerate(tlist):
            line = "  #aa:exec " + t
            reqs.append({"id": i, "do": "directive", "root": b.root, "abi": int(b.cfg.abi), "version": float(b.cfg.ver),
                         "file": os.path.join(b.aad, "verifhost"),
                         "text": "profile verifhost {\n%s\n  include if exists <local/verifhost>\n}\n" % line})
        reps = worker.run_isolating(ctx, "prebuild", reqs, lambda r, e: None, extra_env={"DISTRIBUTION": b.cfg.dist}, timeout=600)
        ejobs = []
        for t, rep in zip(tlist, reps):
            srcinfo = exp.aad.get(t)
            if not srcinfo or srcinfo[0] != "F":
                continue
            stext = matrix.read(srcinfo[1])
            if "@{exec_path}" not in preamble_of(stext):
                continue
            if worker.timed_out(ctx, rep):
                continue
            if "ok" not in rep:
                agg.setdefault("C06/exec-error/%s" % t, []).append((b.cfg.id, "#aa:exec %s failed: %r" % (t, rep.get("error") or rep.get("panic"))))
                continue
            out = rep["ok"]["outs"][0].split("\n")[1:-3]
            paths = []
            for l in out:
                f = scan.rule_fields(l.strip().rstrip(","))
                if f.get("kind") == "file" and f.get("path"):
                    paths.append(f["path"])
            seen_pairs.add(digest("exec", preamble_of(stext), "|".join(paths), tdig))
            ejobs.append((t, preamble_of(stext), paths))

        def eone(j):
            t, pre, paths = j
            if not paths:
                return j, ("differ", "no rule generated")
            if not all(p.startswith("/") for p in paths):
                return j, ("differ", "a generated rule path does not start with '/': %s" % paths[:3])
            union = paths[0] if len(paths) == 1 else "/{" + ",".join(p[1:] for p in paths) + "}"
            v = judge.compare(attach_stub(pre, "@{exec_path}"), attach_stub(pre, union))
            if v[0] == "differ" and lits.get(t) and any(k.startswith("C06/attachment/%s/%s/" % (t, b.cfg.dist)) for k in agg):
                # the attachment of this profile is already reported (key pinned to the built literal): the exec rules are the
                # same finding only if they are observed to match exactly what that literal matches
                v2 = judge.compare(attach_stub(pre, lits[t]), attach_stub(pre, union))
                if v2[0] == "equal":
                    return j, ("same-as-attachment", None)
            return j, v

        for (t, pre, paths), (verdict, info) in pmap(eone, ejobs):
            ctx.case(digest("exec", t, b.cfg.id) if nontrivial_pre(pre) else None)
            if verdict == "same-as-attachment":
                ctx.extra["exec_rules_equal_to_reported_attachment"] = ctx.extra.get("exec_rules_equal_to_reported_attachment", 0) + 1
            elif verdict == "differ":
                agg.setdefault("C06/exec-rules/%s/%s/%s" % (t, b.cfg.dist, digest("|".join(paths))[:8]), []).append((b.cfg.id, "#aa:exec %s: generated rules %s vs @{exec_path}: %s" % (t, paths[:4], info)))
            elif verdict == "reject-b":
                agg.setdefault("C06/exec-rules-rejected/%s" % t, []).append((b.cfg.id, "#aa:exec %s: generated rules rejected: %s" % (t, info)))
            elif verdict in ("inconclusive", "reject-a"):
                ctx.inconcl("exec %s in %s: %s %s" % (t, b.cfg.id, verdict, info))
        # generated preambles through the real userspace builder (first build only)
        if b is builds[0] or (ctx.tier == "thorough" and builds.index(b) < 5):
            generated(ctx, b, judge, agg)
        programs += judge.programs
        disagreements += judge.disagreements_checked
        shutil.rmtree(ov, ignore_errors=True)
        shutil.rmtree(b.root, ignore_errors=True)
    for key, lst in sorted(agg.items()):
        cf = sorted({c for c, _ in lst})
        ctx.violation(key, "%s  [%d configuration(s), e.g. %s]" % (lst[0][1][:500], len(cf), cf[0]), {"configs": cf})
    ctx.require(len(seen_pairs) >= 1000, "only %d distinct stub pairs" % len(seen_pairs))
    ctx.extra["distinct_program_pairs"] = len(seen_pairs)
    ctx.extra["programs"] = programs
    ctx.extra["disagreements_checked"] = disagreements
    ctx.extra["configurations"] = len(cfgs)
    ctx.samples = samples or [{"note": "no non-trivial sample"}]


def nontrivial_pre(pre):
    vals = []
    for l in pre.split("\n"):
        m = re.match(r"^@\{exec_path\}\s*(\+?=)\s*(.*)$", l)
        if m:
            if m.group(1) == "+=":
                return True
            vals += m.group(2).split()
    return len(vals) > 1 or any(("{" in v.replace("@{", "")) or v.count("@{") > 0 for v in vals)


# variables of the built-in table that are known to be usable in generated preambles
GEN_VARS_SAFE = ["bin", "lib", "sbin", "etc_ro", "run", "int", "int2", "c", "w", "uid"]
GEN_VARS_DRIFT = ["arch", "HOME", "MOUNTS", "multiarch", "rand", "user", "version", "user_cache_dirs", "user_config_dirs", "user_share_dirs", "dpkg_script_ext"]


def gen_preamble(rng, i, allow_drift):
    # (names that end like an exec mode: the later builders of the chain rewrite exec modes with regexes over the whole file)
    name = "g%d%s" % (i, rng.choice(["", "", "", "ux", "pux", "Ux", "px", "cx"]))
    lines = ["# generated %d" % i] * rng.randint(0, 3)
    if rng.random() < 0.5:
        lines.append("abi <abi/4.0>,")
    lines.append("")
    lines.append("include <tunables/global>")
    if rng.random() < 0.5:
        lines.append("")
    used = set()

    def value(depth=0):
        r = rng.random()
        pool = GEN_VARS_SAFE + (GEN_VARS_DRIFT if allow_drift else [])
        if r < 0.45:
            v = rng.choice(pool)
            used.add(v)
            if v in ("int", "int2", "c", "w", "uid", "arch", "rand", "user", "version", "multiarch", "dpkg_script_ext"):
                return "/opt/%s/@{%s}/tool" % (name, v)
            if v in ("run", "etc_ro", "MOUNTS"):
                return "@{%s}%s/tool" % (v, name)
            return "@{%s}/%s" % (v, rng.choice([name, name + "-{a,b}", "{" + name + ",x" + name + "}", name + "[0-9]*"]))
        if r < 0.65 and localvars:
            lv = rng.choice(localvars)
            return "@{%s}/%s%s" % (lv, name, rng.choice(["", "-helper", "{,-bin}"]))
        return rng.choice(["/usr/bin/" + name, "/opt/" + name + "/{bin,sbin}/" + name, "/usr/lib{,64}/" + name + "/run", "/opt//" + name])

    localvars = []
    for k in range(rng.randint(0, 2)):
        lv = "%s_dir%d" % (name, k)
        vals = [rng.choice(["/opt/" + name, "@{lib}/" + name, "/usr/share/" + name, "@{bin}"]) for _ in range(rng.randint(1, 2))]
        for v in vals:
            for m in re.findall(r"@\{(\w+)\}", v):
                used.add(m)
        lines.append("@{%s} = %s" % (lv, " ".join(vals)))
        localvars.append(lv)
    if rng.random() < 0.15:
        # an append to a variable of the shipped tunables (valid policy: tunables/global is included above); it belongs to this
        # file only, later files of the same process must not see it
        bv = rng.choice(["bin", "lib", "sbin", "etc_ro"])
        lines.append("@{%s} += /opt/%s/%s" % (bv, name, bv))
        used.add(bv)
    nv = rng.randint(1, 3)
    lines.append("@{exec_path} = " + " ".join(value() for _ in range(nv)))
    for k in range(rng.randint(0, 3)):
        if rng.random() < 0.3:
            lines.append("# between")
        lines.append("@{exec_path} += " + " ".join(value() for _ in range(rng.randint(1, 2))))
    flags = rng.choice(["", " flags=(complain)", " flags=(attach_disconnected,complain)"])
    text = "\n".join(lines) + "\nprofile %s @{exec_path}%s {\n  include <abstractions/base>\n\n  @{exec_path} mr,\n\n  include if exists <local/%s>\n}\n" % (name, flags, name)
    return name, text, sorted(used & set(GEN_VARS_DRIFT))


def drifting_variables(ctx, b, judge):
    """Variables of the project's built-in table whose expansion differs from the shipped tunables of this build
    (observed through the real userspace builder; used only to classify generated cases by their input)."""
    names = GEN_VARS_SAFE + GEN_VARS_DRIFT
    reqs = [{"id": "reg", "do": "register", "builders": ["userspace"], "root": b.root}]
    for v in names:
        text = "include <tunables/global>\n@{exec_path} = /verif/@{%s}/x\nprofile dv @{exec_path} {\n  include if exists <local/dv>\n}\n" % v
        reqs.append({"id": v, "do": "builder", "root": b.root, "file": os.path.join(b.aad, "dv"), "text": text})
    reps = worker.run_isolating(ctx, "prebuild", reqs, lambda r, e: None, extra_env={"DISTRIBUTION": b.cfg.dist}, timeout=300)[1:]
    out = set()
    for v, rep in zip(names, reps):
        if worker.timed_out(ctx, rep):
            continue
        if "ok" not in rep:
            out.add(v)
            continue
        bh = first_header(rep["ok"])
        pre = "include <tunables/global>\n@{exec_path} = /verif/@{%s}/x\n" % v
        verdict, info = judge.compare(attach_stub(pre, "@{exec_path}"), attach_stub(pre, " ".join(bh.attachments)))
        if verdict != "equal":
            out.add(v)
    return out


def generated(ctx, b, judge, agg):
    rng = ctx.rng
    n = 400 if ctx.tier == "quick" else 4000
    cases = [gen_preamble(rng, i, allow_drift=(i % 4 == 3)) for i in range(n)]
    # the builder chain of this configuration, in the order the command line registers it
    chain = ["userspace", "hotfix"] + (["fsp"] if b.cfg.full == "full" else []) + ([b.cfg.mode] if b.cfg.mode in ("complain", "enforce") else []) + (["abi3"] if b.cfg.abi == "3" else [])
    ctx.extra.setdefault("generated_builder_chains", {})[b.cfg.id] = chain
    reqs = [{"id": "reg", "do": "register", "builders": chain, "root": b.root}]
    for i, (name, text, drift) in enumerate(cases):
        reqs.append({"id": i, "do": "builder", "root": b.root, "file": os.path.join(b.aad, name), "text": text})
    reps = worker.run_isolating(ctx, "prebuild", reqs, lambda r, e: None, extra_env={"DISTRIBUTION": b.cfg.dist}, timeout=900)[1:]
    jobs = []
    for (name, text, drift), rep in zip(cases, reps):
        if worker.timed_out(ctx, rep):
            continue
        if "ok" not in rep:
            agg.setdefault("C06/generated/builder-error", []).append((b.cfg.id, "userspace builder failed on a generated preamble: %r" % (rep.get("error") or rep.get("panic") or rep,)))
            ctx.case(digest(text))
            continue
        bh = first_header(rep["ok"])
        jobs.append((name, text, drift, " ".join(bh.attachments) if bh else ""))

    def one(j):
        name, text, drift, lit = j
        pre = preamble_of(text)
        if not lit or "@{" in lit:
            return j, ("differ", "attachment not fully resolved: %r" % lit)
        return j, judge.compare(attach_stub(pre, "@{exec_path}"), attach_stub(pre, lit))

    drifting = drifting_variables(ctx, b, judge)
    ctx.extra.setdefault("builtin_variables_differing_from_shipped_tunables", {})[b.cfg.dist] = sorted(drifting)
    for (name, text, drift, lit), (verdict, info) in pmap(one, jobs):
        ctx.case(digest(text))
        if verdict == "differ":
            used = sorted(set(re.findall(r"@\{(\w+)\}", preamble_of(text))) & drifting)
            key = ("C06/generated/drift/" + used[0]) if used else "C06/generated/attachment-differs"
            agg.setdefault(key, []).append((b.cfg.id, "generated preamble: built attachment %s vs @{exec_path}: %s\n%s" % (lit[:200], info, preamble_of(text)[-400:])))
        elif verdict == "reject-b":
            agg.setdefault("C06/generated/attachment-rejected", []).append((b.cfg.id, "generated preamble: built attachment %s rejected: %s" % (lit[:200], info)))
        elif verdict in ("inconclusive", "reject-a"):
            ctx.inconcl("generated %s: %s %s" % (name, verdict, info))
    ctx.extra["generated_preambles"] = ctx.extra.get("generated_preambles", 0) + n
