"""C03 - only/exclude directives keep exactly the rules meant for the build target."""
import os
import re
import shutil

from . import matrix, worker
from .common import REPO, digest, pmap

RE_MARK = re.compile(r"#aa:(only|exclude)( .*)?$", re.M)
RE_OTHER = re.compile(r"#aa:(dbus|exec|stack)\b")
TARGETS = [(d, a, v) for d in matrix.DISTS for a in matrix.ABIS for v in matrix.VERS]


def neutralise(text):
    """Other directive kinds are made inert so that only the filter step is observed."""
    return RE_OTHER.sub(lambda m: "#xa:" + m.group(1), text)


def applies(words, dist, abi, ver):
    return any(w in (dist, matrix.FAMILY[dist], "abi%s" % abi, "apparmor%s" % ver) for w in words)


def expected(text, dist, abi, ver):
    """The directive model: returns the expected list of non-blank, right-trimmed lines
    and the number of guards that are false for this target."""
    lines = text.split("\n")
    out = []
    removed = 0
    i = 0
    n = len(lines)
    while i < n:
        l = lines[i]
        m = RE_MARK.search(l)
        if not m:
            out.append(l)
            i += 1
            continue
        kind = m.group(1)
        words = (m.group(2) or "").split()
        keep = applies(words, dist, abi, ver) if kind == "only" else not applies(words, dist, abi, ver)
        left = l[:m.start()]
        if left.strip():                      # inline form: guards its own line
            if keep:
                out.append(left.rstrip())
            else:
                removed += 1
            i += 1
            continue
        # paragraph form: guards the following lines up to the next blank line
        i += 1
        para = []
        while i < n and lines[i] != "":
            para.append(lines[i])
            i += 1
        if keep:
            # guarded lines are carried through (a marker inside a kept paragraph is handled on its own)
            sub_out, sub_removed = expected("\n".join(para), dist, abi, ver) if any(RE_MARK.search(x) for x in para) else (None, 0)
            if sub_out is not None:
                out.extend(sub_out)
                removed += sub_removed
            else:
                out.extend(para)
        else:
            removed += 1
    return [x.rstrip() for x in out if x.strip()], removed


def observed(text):
    return [x.rstrip() for x in text.split("\n") if x.strip()]


def shipped_files():
    res = []
    root = os.path.join(REPO, "apparmor.d")
    for dp, dns, fns in os.walk(root):
        dns.sort()
        for fn in sorted(fns):
            p = os.path.join(dp, fn)
            t = matrix.read(p)
            if RE_MARK.search(t):
                res.append((os.path.relpath(p, root), t))
    return res


POOL_WORDS = ["arch", "debian", "ubuntu", "opensuse", "whonix", "apt", "pacman", "zypper", "abi3", "abi4",
              "apparmor3.0", "apparmor4.0", "apparmor4.1", "fedora", "dnf", "abi5", "apparmor4", "apparmor4x1", "apparmor30"]
RULES = ["@{bin}/foo rPx,", "/etc/foo r,", "owner @{HOME}/.cache/foo/{,**} rw,", "capability sys_admin,", "network inet stream,",
         "/usr/share/x#y/** r,", "\"/opt/my app/#1\" r,", "@{run}/user/@{uid}/bus rw,", "signal (receive) set=(term, kill) peer=foo,",
         "dbus send bus=session path=/org/a interface=org.a member=Get peer=(name=org.a),", "/var/lib/foo/ r,", "mount options=(rw, rbind) /a/ -> /b/,",
         "@{lib}/foo/bar rix,", "/dev/tty@{int} rw,", "unix (send, receive) type=stream peer=(label=bar),"]


def gen_profile(rng, i):
    """Generated profile with only/exclude markers; paragraphs always end with a blank line (and may be empty)."""
    lines = ["abi <abi/4.0>,", "", "include <tunables/global>", "", "@{exec_path} = @{bin}/g%d" % i,
             "profile g%d @{exec_path} {" % i, "  include <abstractions/base>", ""]
    feats = set()

    def marker(indent):
        kind = rng.choice(["only", "only", "exclude"])
        k = rng.choice([1, 1, 1, 2, 3])
        words = rng.sample(POOL_WORDS, k)
        if k > 1:
            feats.add("multi-word")
        tail = ""
        if rng.random() < 0.12:
            tail = rng.choice(["  ", "\t", " \t ", " "])        # blanks an editor left after the filters
            feats.add("trailing-blanks")
        return "#aa:%s %s%s" % (kind, rng.choice([" ", " ", " ", "  ", "\t"]).join(words) if len(words) > 1 else words[0], tail)

    def block(indent, depth):
        nparas = rng.randint(2, 5)
        prev_marker = None
        for _ in range(nparas):
            form = rng.choice(["plain", "plain", "inline", "paragraph", "paragraph", "repeat"])
            nrules = rng.randint(1, 4)
            rules = [rng.choice(RULES) for _ in range(nrules)]
            if form == "plain":
                for r in rules:
                    lines.append(indent + r)
            elif form == "inline":
                for r in rules:
                    if rng.random() < 0.6:
                        lines.append(indent + r + " " + marker(indent))
                        feats.add("inline")
                    else:
                        lines.append(indent + r)
            else:
                ind = indent
                if rng.random() < 0.1:
                    ind = "\t" if indent == "  " else "\t\t"        # this paragraph is indented with tabs
                    feats.add("tab-indent")
                mk = marker(ind)
                if form == "repeat" and prev_marker:
                    mk = prev_marker
                    feats.add("repeated-identical-marker")
                prev_marker = mk
                lines.append(ind + mk)
                feats.add("paragraph")
                if rng.random() < 0.08:
                    # a marker that guards nothing (what is left when the guarded rules are deleted and the marker is forgotten):
                    # the paragraph that follows is not guarded
                    feats.add("empty-paragraph")
                    rules = []
                for r in rules:
                    lines.append(ind + r)
            lines.append("")
    block("  ", 0)
    if rng.random() < 0.4:
        feats.add("sub-profile")
        lines.append("  profile sub {")
        lines.append("    include <abstractions/base>")
        lines.append("")
        block("    ", 1)
        lines.append("    include if exists <local/g%d_sub>" % i)
        lines.append("  }")
        lines.append("")
    if rng.random() < 0.3:
        feats.add("guarded-last-paragraph")
        lines.append("  " + marker("  "))
        lines.append("  " + rng.choice(RULES))
        lines.append("")
    lines.append("  include if exists <local/g%d>" % i)
    lines.append("}")
    lines.append("")
    return "\n".join(lines), sorted(feats)


def run(ctx):
    ctx.build_bins()
    rng = ctx.rng
    ctx.rule = ("each (text, target) pair is one case: the real directive.Run (worker started with DISTRIBUTION=<d> so the project's own "
                "init derives the family; ABI/version per request; dbus/exec/stack markers made inert) is compared with an independent "
                "directive model on the sequence of non-blank right-trimmed lines, and no only/exclude marker may survive. Texts: every "
                "shipped file carrying only/exclude x all 30 targets (exhaustive), the `built` tap text of such files in real builds, "
                "generated profiles. Non-trivial = at least one guard is false for the target (something must be removed)")
    files = shipped_files()
    ngen = 1500 if ctx.tier == "quick" else 30000
    gens = [gen_profile(rng, i) for i in range(ngen)]
    # real builds: tap texts entering the directive stage + final outputs
    cfgs = matrix.covering(rng, extra=0) if ctx.tier == "quick" else matrix.all_cfgs()
    if ctx.tier == "quick":
        cfgs = cfgs[:12]
    builds, bad = matrix.build_many(ctx, cfgs, tap=True)
    for b in bad:
        ctx.violation("C03/build-failed/" + b.cfg.id, "prebuild failed: " + b.log[-300:], {"cfg": b.cfg.id})
    tap_cases = {}
    for b in builds:
        if b.rc != 0:
            continue
        base = os.path.join(b.tap, "built", "apparmor.d")
        for dp, dns, fns in os.walk(base):
            for fn in fns:
                p = os.path.join(dp, fn)
                t = matrix.read(p)
                if RE_MARK.search(t):
                    key = (b.cfg.dist, b.cfg.abi, b.cfg.ver, digest(t))
                    tap_cases.setdefault(key, ("tap:" + os.path.relpath(p, base), t, b.cfg.id))
        # final output: no marker survives
        for dp, dns, fns in os.walk(b.aad):
            for fn in fns:
                p = os.path.join(dp, fn)
                if os.path.islink(p):
                    continue
                t = matrix.read(p)
                ctx.case(None)
                m = RE_MARK.search(t)
                if m:
                    rel = os.path.relpath(p, b.aad)
                    ctx.violation("C03/marker-survives-in-build/%s" % rel, "%s: `%s` survives in the built file %s" % (b.cfg.id, m.group(0), rel),
                                  {"cfg": b.cfg.id, "file": rel})
        shutil.rmtree(b.root, ignore_errors=True)
    ctx.extra["builds"] = len(builds)
    # batches per distribution
    per_dist = {d: [] for d in matrix.DISTS}
    for (d, a, v) in TARGETS:
        for rel, t in files:
            per_dist[d].append(("shipped:" + rel, t, a, v, None))
    for (d, a, v, _), (name, t, cid) in tap_cases.items():
        per_dist[d].append((name, t, a, v, cid))
    for i, (t, feats) in enumerate(gens):
        d, a, v = TARGETS[rng.randrange(len(TARGETS))]
        per_dist[d].append(("gen:%d:%s" % (i, ",".join(feats)), t, a, v, None))

    def run_dist(d):
        items = per_dist[d]
        reqs = []
        for i, (name, t, a, v, cid) in enumerate(items):
            reqs.append({"id": i, "do": "directive", "root": "/nonexistent-root", "abi": int(a), "version": float(v),
                         "file": "/nonexistent-root/apparmor.d/x", "text": neutralise(t)})
        out = []
        CH = 400
        for k in range(0, len(reqs), CH):
            out += worker.run_isolating(ctx, "prebuild", [{"id": "info", "do": "info"}] + reqs[k:k + CH], lambda r, e: None,
                                        extra_env={"DISTRIBUTION": d}, timeout=600)[1:]
        return d, out

    agg = {}
    for d, reps in pmap(run_dist, matrix.DISTS, workers=5):
        for (name, t, a, v, cid), rep in zip(per_dist[d], reps):
            exp, removed = expected(neutralise(t), d, a, v)
            target = "%s/abi%s/apparmor%s" % (d, a, v)
            ctx.case(digest(name, t, target) if removed else None,
                     {"text": name, "target": target, "guards_false": removed} if removed and name.startswith("shipped") else None)
            src, ident = name.split(":", 1)
            if worker.timed_out(ctx, rep):
                continue
            if "ok" not in rep:
                key = "C03/%s/error/%s" % (src, ident if src != "gen" else "generated")
                agg.setdefault(key, []).append((target, "directive.Run failed: %r" % (rep,), t))
                continue
            got = observed(rep["ok"]["outs"][0])
            if got == exp:
                continue
            # classify the disagreement
            surv = [x for x in got if RE_MARK.search(x)]
            if surv:
                cls = "marker-survives"
            elif [x.strip() for x in got] == [x.strip() for x in exp]:
                cls = "indentation-changed"
            elif len(got) < len(exp):
                cls = "lines-lost"
            elif len(got) > len(exp):
                cls = "guarded-lines-kept"
            else:
                cls = "lines-altered"
            if src == "gen":
                feats = ident.split(":", 1)[1]
                key = "C03/generated/%s/%s" % (cls, feats or "plain")
            else:
                key = "C03/%s/%s/%s" % (src, cls, ident)
            diff = first_diff(exp, got)
            agg.setdefault(key, []).append((target, diff, t))
    for key, lst in sorted(agg.items()):
        ctx.violation(key, "%s  [%d target(s), e.g. %s]" % (lst[0][1][:400], len(lst), lst[0][0]),
                      {"targets": [x for x, _, _ in lst][:40], "text": lst[0][2]})
    if not ctx.samples:
        for d in ("arch", "opensuse", "whonix"):
            for (n, t, a, v, c) in per_dist[d]:
                exp_, removed_ = expected(neutralise(t), d, a, v)
                if removed_ and n.startswith("shipped"):
                    marks = [l.strip() for l in t.split("\n") if RE_MARK.search(l)][:4]
                    ctx.samples.append({"input": n, "target": "%s/abi%s/apparmor%s" % (d, a, v), "markers": marks, "guards_false_for_target": removed_,
                                        "non_blank_lines_expected": len(exp_)})
                    break
    ctx.require(len(files) >= 10 and len(tap_cases) >= 20, "only %d shipped files with only/exclude markers, %d tap texts" % (len(files), len(tap_cases)))
    ctx.extra["shipped_files"] = len(files)
    ctx.extra["targets"] = len(TARGETS)
    ctx.extra["tap_texts"] = len(tap_cases)
    ctx.extra["generated"] = ngen
    ctx.exhaustive = True   # the shipped files x targets part is enumerated completely


def first_diff(exp, got):
    for i in range(max(len(exp), len(got))):
        e = exp[i] if i < len(exp) else None
        g = got[i] if i < len(got) else None
        if e != g:
            return "first difference at non-blank line %d: expected %r, got %r" % (i + 1, e, g)
    return "equal"
