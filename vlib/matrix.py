"""Runs the real prebuild binary over build configurations, each in its own
scratch copy of the source tree, and reduces the outputs to manifests."""
import hashlib
import itertools
import os
import shutil
import subprocess

from .common import REPO, HarnessError, env, pmap

DISTS = ["arch", "debian", "ubuntu", "opensuse", "whonix"]
ABIS = ["3", "4"]
VERS = ["3.0", "4.0", "4.1"]
MODES = ["none", "complain", "enforce"]
FULLS = ["normal", "full"]
FACTORS = [DISTS, ABIS, VERS, MODES, FULLS]
FAMILY = {"arch": "pacman", "debian": "apt", "ubuntu": "apt", "whonix": "apt", "opensuse": "zypper"}
SRC_DIRS = ["apparmor.d", "dists", "systemd", "share", "debian"]


class Cfg(tuple):
    """(dist, abi, ver, mode, full)"""
    __slots__ = ()

    def __new__(cls, dist, abi, ver, mode, full):
        return tuple.__new__(cls, (dist, str(abi), str(ver), mode, full))

    dist = property(lambda s: s[0])
    abi = property(lambda s: s[1])
    ver = property(lambda s: s[2])
    mode = property(lambda s: s[3])
    full = property(lambda s: s[4])

    @property
    def id(self):
        return "-".join(self)

    def args(self):
        a = ["--abi", self.abi, "--version", self.ver]
        if self.mode == "complain":
            a.append("--complain")
        elif self.mode == "enforce":
            a.append("--enforce")
        if self.full == "full":
            a.append("--full")
        return a

    def replace(self, **kw):
        d = dict(dist=self.dist, abi=self.abi, ver=self.ver, mode=self.mode, full=self.full)
        d.update(kw)
        return Cfg(**d)

    @staticmethod
    def parse(s):
        return Cfg(*s.split("-"))


def all_cfgs():
    return [Cfg(*t) for t in itertools.product(*FACTORS)]


def prepare_cfgs():
    """Configurations distinct for the prepare stage (mode is irrelevant)."""
    return [Cfg(d, a, v, "none", f) for d, a, v, f in itertools.product(DISTS, ABIS, VERS, FULLS)]


def covering(rng, extra=4):
    """Deterministic greedy strength-2 covering array over the five factors,
    plus every distribution x enforce, plus `extra` configurations drawn from rng."""
    allc = all_cfgs()
    need = set()
    for i, j in itertools.combinations(range(5), 2):
        for a in FACTORS[i]:
            for b in FACTORS[j]:
                need.add((i, a, j, b))
    chosen = []
    order = list(allc)
    rng.shuffle(order)
    while need:
        best, bestn = None, -1
        for c in order:
            n = sum(1 for (i, a, j, b) in need if c[i] == a and c[j] == b)
            if n > bestn:
                best, bestn = c, n
        chosen.append(best)
        need = {(i, a, j, b) for (i, a, j, b) in need if not (best[i] == a and best[j] == b)}
    for d in DISTS:
        if not any(c.dist == d and c.mode == "enforce" for c in chosen):
            chosen.append(Cfg(d, rng.choice(ABIS), rng.choice(VERS), "enforce", rng.choice(FULLS)))
    pool = [c for c in order if c not in chosen]
    chosen.extend(pool[:extra])
    return sorted(set(chosen))


class Build:
    def __init__(self, cfg, root, tap, rc, log):
        self.cfg = cfg
        self.root = root            # directory holding apparmor.d/ systemd/ share/ (the .build dir)
        self.tap = tap              # VERIF_TAP_DIR or None
        self.rc = rc
        self.log = log
        self.hide = None

    @property
    def aad(self):
        return os.path.join(self.root, "apparmor.d")

    def manifest(self):
        return manifest(self.root)


def copy_source(dst):
    os.makedirs(dst, exist_ok=True)
    for d in SRC_DIRS:
        src = os.path.join(REPO, d)
        if os.path.exists(src):
            shutil.copytree(src, os.path.join(dst, d), symlinks=True)
    bd = os.path.join(dst, ".build")
    if os.path.exists(bd):
        shutil.rmtree(bd)


def run_build(ctx, cfg, tag="", tap=True, prior=None, src_mutator=None, keep_src=False, bindir=None, extra_env=None, timeout=300):
    """One real prebuild run. prior: a directory to place as .build before the run
    (history); src_mutator(srcdir): edits the scratch copy of the source before building."""
    name = cfg.id + (("." + tag) if tag else "")
    src = os.path.join(ctx.scratch, "src", name)
    if os.path.exists(src):
        shutil.rmtree(src)
    copy_source(src)
    if src_mutator:
        src_mutator(src)
    if prior:
        shutil.copytree(prior, os.path.join(src, ".build"), symlinks=True)
    tapdir = None
    e = env(DISTRIBUTION=cfg.dist)
    e.pop("VERIF_TAP_DIR", None)
    if tap:
        tapdir = os.path.join(ctx.scratch, "tap", name)
        if os.path.exists(tapdir):
            shutil.rmtree(tapdir)
        os.makedirs(tapdir)
        e["VERIF_TAP_DIR"] = tapdir
    import signal
    e.update(extra_env or {})
    p = subprocess.Popen([os.path.join(bindir or ctx.bins, "prebuild")] + cfg.args(), cwd=src, env=e,
                         stdout=subprocess.PIPE, stderr=subprocess.STDOUT, start_new_session=True)
    try:
        out, _ = p.communicate(timeout=timeout)
        rc, log = p.returncode, out.decode("utf-8", "replace")
    except subprocess.TimeoutExpired:
        try:
            os.killpg(p.pid, signal.SIGKILL)
        except OSError:
            pass
        out, _ = p.communicate()
        rc, log = -9, "TIMEOUT\n" + (out or b"").decode("utf-8", "replace")
    out = os.path.join(ctx.scratch, "builds", name)
    if os.path.exists(out):
        shutil.rmtree(out)
    os.makedirs(os.path.dirname(out), exist_ok=True)
    if os.path.isdir(os.path.join(src, ".build")):
        shutil.move(os.path.join(src, ".build"), out)
    else:
        os.makedirs(out)
    b = Build(cfg, out, tapdir, rc, log)
    try:
        b.hide = open(os.path.join(src, "debian", "apparmor.d.hide")).read()
    except OSError:
        b.hide = None
    if keep_src:
        b.src = src
    else:
        shutil.rmtree(src, ignore_errors=True)
    return b


def build_many(ctx, cfgs, **kw):
    ctx.build_bins()
    builds = pmap(lambda c: run_build(ctx, c, **kw), cfgs)
    bad = [b for b in builds if b.rc != 0]
    return builds, bad


def manifest(root, sub=("apparmor.d", "systemd", "share")):
    """path -> ('f', sha256) | ('l', target) | ('d',) for everything under root/<sub>."""
    res = {}
    for s in sub:
        base = os.path.join(root, s)
        if not os.path.lexists(base):
            continue
        for dp, dns, fns in os.walk(base):
            for n in list(dns):
                p = os.path.join(dp, n)
                rel = os.path.relpath(p, root)
                if os.path.islink(p):
                    res[rel] = ("l", os.readlink(p))
                else:
                    res[rel] = ("d",)
            for n in fns:
                p = os.path.join(dp, n)
                rel = os.path.relpath(p, root)
                if os.path.islink(p):
                    res[rel] = ("l", os.readlink(p))
                else:
                    with open(p, "rb") as f:
                        res[rel] = ("f", hashlib.sha256(f.read()).hexdigest())
    return res


def top_profiles(aad):
    """Regular top-level files of an output policy directory (the profiles)."""
    return sorted(n for n in os.listdir(aad)
                  if os.path.isfile(os.path.join(aad, n)) and not os.path.islink(os.path.join(aad, n)))


def read(path):
    with open(path, "rb") as f:
        return f.read().decode("utf-8", "surrogateescape")
