"""Kernel-style AppArmor log record generator and encoder (audit, syslog, journald JSON framings)."""
import json

UNTRUSTED = {"name", "comm", "profile", "target", "srcname", "peer", "label", "peer_label", "info_name"}
BARE = {"pid", "peer_pid", "fsuid", "ouid", "error", "protocol", "capability", "lport", "fport", "sauid", "ino", "dev_maj", "rlimit", "value"}

PROFILES = ["firefox", "gnome-shell", "snap.firefox.firefox", "foo//bar", "torbrowser", "child-open", "/usr/bin/man", "systemd-logind",
            "xdg-desktop-portal", "pacman", "apt", "dockerd"]
FILE_OPS = ["open", "exec", "mknod", "mkdir", "rmdir", "unlink", "truncate", "chmod", "chown", "getattr", "link", "rename_src", "rename_dest",
            "file_mmap", "file_perm", "file_lock", "file_inherit", "file_receive"]
MASKS = ["r", "w", "rw", "a", "c", "d", "wc", "x", "m", "k", "l", "wr", "ac", "rwc"]
NAME_FAMILIES = [
    "/home/{user}/.cache/app/zq{tag}", "/home/{user}/.config/app/conf.d/zq{tag}", "/home/{user}/.local/share/app/zq{tag}", "/home/{user}/Documents/zq{tag}",
    "/home/{user}/.ssh/zq{tag}", "/home/{user}/.gnupg/zq{tag}", "/usr/lib/app/zq{tag}", "/usr/lib64/app/zq{tag}.so.1", "/usr/libexec/app/zq{tag}",
    "/usr/bin/zq{tag}", "/usr/sbin/zq{tag}", "/usr/share/app/zq{tag}", "/etc/app/zq{tag}.conf", "/var/lib/app/zq{tag}", "/var/log/app/zq{tag}.log",
    "/proc/{pid}/task/{tid}/zq{tag}", "/proc/{pid}/zq{tag}", "/proc/1/zq{tag}", "/proc/sys/kernel/zq{tag}", "/sys/devices/pci0000:00/0000:00:1f.3/zq{tag}",
    "/sys/devices/pci0000:00/0000:00:02.0/drm/card0/zq{tag}", "/sys/dev/block/8:16/zq{tag}", "/sys/class/net/zq{tag}", "/sys/fs/cgroup/user.slice/user-1000.slice/zq{tag}",
    "/run/user/{uid}/zq{tag}", "/run/user/{uid}/bus-zq{tag}", "/var/run/app/zq{tag}", "/run/udev/data/+pci:0000:00:02.0-zq{tag}", "/run/udev/data/c226:0-zq{tag}",
    "/tmp/zq{tag}", "/tmp/user/1000/zq{tag}", "/dev/shm/zq{tag}", "/dev/dri/card0-zq{tag}", "/dev/tty1-zq{tag}", "/opt/App Name/zq{tag}", "/boot/vmlinuz-6.1.0-18-amd64-zq{tag}",
    "/usr/lib/x86_64-linux-gnu/app/zq{tag}", "/usr/lib/modules/6.1.0-18-amd64/kernel/zq{tag}.ko", "/var/lib/app/3f2a8c1e-9b7d-4e6f-a1b2-c3d4e5f60718/zq{tag}",
    "/var/cache/app/0123456789abcdef0123456789abcdef/zq{tag}", "/srv/data/20240101/zq{tag}", "/home/{user}/.mozilla/firefox/ab12cd34.default/zq{tag}",
    "/boot/vmlinuz-6.1.0-18-{arch}-zq{tag}", "/opt/vendor/plugins/{arch}/libzq{tag}.so.2", "/usr/lib/{arch}-linux-gnu/app/zq{tag}", "/var/lib/app/{arch}/zq{tag}",
    "/home/{user}/.cache/1000/zq{tag}", "/srv/uid1000/zq{tag}", "/run/user/{uid}/app/1000/zq{tag}",
    "/var/tmp/app-zq{tag}/cache", "/var/tmp/zq{tag}", "/var/cache/app/zq{tag}", "/var/spool/app/zq{tag}", "/usr/local/bin/zq{tag}", "/usr/local/share/app/zq{tag}",
    "/usr/local/lib/app/zq{tag}", "/snap/app/123/usr/bin/zq{tag}", "/mnt/data/zq{tag}", "/root/.config/app/zq{tag}", "/root/zq{tag}", "/etc/opt/app/zq{tag}",
    "/usr/etc/app/zq{tag}", "/lib/x86_64-linux-gnu/zq{tag}", "/bin/zq{tag}", "/sbin/zq{tag}", "/lib64/zq{tag}", "/usr/lib32/app/zq{tag}", "/home/{user}/.local/state/app/zq{tag}",
    "/home/{user}/.local/bin/zq{tag}", "/home/{user}/.local/lib/app/zq{tag}", "/sys/kernel/mm/zq{tag}", "/proc/{pid}/fd/zq{tag}", "/dev/pts/zq{tag}", "/run/systemd/zq{tag}",
    "/var/lib/flatpak/app/zq{tag}", "/usr/share/app/x86_64/zq{tag}", "/home/{user}/snap/app/common/zq{tag}",
    # one family per alternative of the tool's uuid / hex-run / digit-run rewrites (separators, letter case and run lengths drawn per record)
    "/var/lib/app/volumes/vol_{uuid}/zq{tag}", "/run/media/{user}/{uuid}/zq{tag}", "/var/lib/docker/overlay2/{hex64}/zq{tag}",
    "/var/lib/app/objects/{hex38}/zq{tag}", "/var/cache/fontconfig/{hex32}-le64.cache-zq{tag}", "/var/lib/app/{hex16}/zq{tag}",
    "/var/lib/app/seq/{int64}/zq{tag}", "/var/lib/app/seq/{int32}/zq{tag}", "/var/lib/app/seq/{int16}/zq{tag}", "/var/log/app/{int10}/zq{tag}",
    "/var/log/app/{int8}/zq{tag}", "/var/spool/app/{int6}/zq{tag}",
    # ... and widths between the rewritten ones (a millisecond timestamp has 13 digits)
    "/var/lib/app/snapshot-{int13}.idx-zq{tag}", "/var/lib/app/{int11}/zq{tag}", "/var/lib/app/{int15}/zq{tag}", "/var/lib/app/{int27}/zq{tag}", "/var/lib/app/{hex20}/zq{tag}",
    "/usr/share/icons/Adwaita/16x16/zq{tag}.png", "/etc/ssl/certs/ca-certificates-zq{tag}.crt", "/home/{user}/Téléchargements/zq{tag}", "/media/{user}/USB DISK/zq{tag}",
]
USERS = ["alice", "bob", "user1", "Ünï"]


def tagstr(tag):
    """Unique tag as letters g..p (no digit run, no hex digit): survives every generalisation pattern."""
    return "".join("ghijklmnop"[int(c)] for c in str(tag))


def needs_hex(v):
    return any(ord(c) < 0x21 or ord(c) > 0x7e or c == '"' for c in v)


def enc_value(key, v, force_hex=False):
    """Kernel-style rendering of one key=value."""
    if key in BARE:
        return "%s=%s" % (key, v)
    if key in UNTRUSTED and (force_hex or needs_hex(v)):
        return "%s=%s" % (key, v.encode("utf-8", "surrogateescape").hex().upper())
    return '%s="%s"' % (key, v)


def render(fields, framing="audit", serial=1, ts="1700000000.123", apparmor_first=True):
    """fields: list of (key, value) or (key, value, 'hex'). Returns one log line (no newline)."""
    parts = []
    userspace = framing in ("dbus-syslog", "journald-dbus")      # dbus-daemon quotes its values, it never hex-encodes
    for f in fields:
        k, v = f[0], f[1]
        if len(f) > 2 and f[2] == "bare":
            parts.append("%s=%s" % (k, v))
        elif userspace and k not in BARE:
            parts.append('%s="%s"' % (k, v))
        else:
            parts.append(enc_value(k, v, force_hex=(len(f) > 2 and f[2] == "hex")))
    body = " ".join(parts)
    if framing == "audit":
        return "type=AVC msg=audit(%s:%d): %s" % (ts, serial, body)
    if framing == "syslog":
        return "Jan  5 10:0%d:0%d host kernel: [ %d.%06d] audit: type=1400 audit(%s:%d): %s" % (serial % 6, serial % 10, 100 + serial, serial, ts, serial, body)
    if framing == "dbus-syslog":
        return "Jan  5 10:00:00 host dbus-daemon[%d]: %s" % (600 + serial % 50, body)
    if framing == "journald":
        return json.dumps({"_PID": "1", "MESSAGE": "audit: type=1400 audit(%s:%d): %s" % (ts, serial, body), "SYSLOG_IDENTIFIER": "kernel"}, ensure_ascii=False)
    if framing == "journald-dbus":
        return json.dumps({"MESSAGE": body, "SYSLOG_IDENTIFIER": "dbus-daemon"}, ensure_ascii=False)
    raise ValueError(framing)


def gen_record(rng, tag, cls=None, status=None, profile=None, tame=False):
    """Returns dict(fields=[(k,v)...], cls=..., tag=..., values={k: v})."""
    cls = cls or rng.choice(["file"] * 8 + ["cap", "net", "unix", "signal", "ptrace", "dbus", "mount", "umount", "remount", "pivotroot",
                                            "change_onexec", "mqueue", "io_uring", "userns", "rlimit", "exec", "link"])
    status = status or rng.choice(["DENIED", "ALLOWED", "ALLOWED", "AUDIT"])
    profile = profile or rng.choice(PROFILES)
    pid = str(rng.randint(100, 99999))
    ts_ = tagstr(tag)
    comm = "c" + ts_
    user = rng.choice(USERS[:3] if tame else USERS)
    hexrun = lambda n: "".join(rng.choice("0123456789abcdef" if rng.random() < 0.8 else "0123456789ABCDEF") for _ in range(n))
    digits = lambda n: "".join(rng.choice("0123456789") for _ in range(n))
    uuid = hexrun(8) + rng.choice("-_") + hexrun(4) + rng.choice("-_") + hexrun(4) + rng.choice("-_") + hexrun(4) + rng.choice("-_") + hexrun(12)
    name = rng.choice(NAME_FAMILIES).format(user=user, pid=rng.randint(2, 99999), tid=rng.randint(2, 99999), uid=rng.choice([1000, 1001, 0, 120]), tag=ts_,
                                             arch=rng.choice(["amd64", "x86_64", "i386", "i686", "arm64", "aarch64", "riscv64", "armhf", "i586", "i486", "x86_64_v3", "amd64v2"]),
                                             uuid=uuid, hex64=hexrun(64), hex38=hexrun(38), hex32=hexrun(32), hex16=hexrun(16),
                                             int64=digits(64), int32=digits(32), int16=digits(16), int10=digits(10), int8=digits(8), int6=digits(6),
                                             int13=digits(13), int11=digits(11), int15=digits(15), int27=digits(27), hex20=hexrun(20))
    f = [("apparmor", status)]
    if cls in ("file", "exec", "link"):
        op = {"exec": "exec", "link": "link"}.get(cls) or rng.choice([o for o in FILE_OPS if o not in ("exec", "link")])
        mask = {"exec": "x", "link": "l"}.get(cls) or rng.choice([m for m in MASKS if m not in ("x", "l")])
        if cls == "link" and rng.random() < 0.2:
            mask = "k"        # a lock taken through a hard link: operation="link" with another mask than l (seen in real audit logs)
        f += [("operation", op)]
        if rng.random() < 0.7 or op == "chown":
            f.append(("class", "file"))      # (without class= the tool maps a record by its operation; chown is not in that table)
        if rng.random() < 0.15:
            f.append(("info", rng.choice(["Failed name lookup - disconnected path", "Failed name lookup - deleted entry"])))
            f.append(("error", rng.choice(["-13", "-2"])))
        denied = mask
        if len(mask) > 1 and rng.random() < 0.3:
            denied = mask[rng.randrange(len(mask))]      # partly denied: the rule must still cover everything that was requested
        f += [("profile", profile), ("name", name), ("pid", pid), ("comm", comm), ("requested_mask", mask), ("denied_mask", denied)]
        fsuid = rng.choice(["1000", "0", "1001"])
        ouid = rng.choice([fsuid, fsuid, "0", "1000"])
        f += [("fsuid", fsuid), ("ouid", ouid)]
        if cls == "link":
            f.append(("target", name.rsplit("/", 1)[0] + "/lzq" + ts_))
        if cls == "exec" and rng.random() < 0.3:
            f.append(("target", rng.choice(["child-open", "foo//bar"])))
    elif cls == "change_onexec":
        f += [("operation", "change_onexec"), ("class", "file"), ("info", "label not found"), ("error", "-2"), ("profile", profile), ("name", name),
              ("pid", pid), ("comm", comm), ("target", rng.choice(["foo", "systemd-user", "firefox//&bar"]))]
    elif cls == "cap":
        cap = rng.choice(["net_admin", "sys_ptrace", "dac_override", "chown", "sys_admin", "kill"])
        f += [("operation", "capable"), ("class", "cap"), ("profile", profile), ("pid", pid), ("comm", comm), ("capability", str(rng.randint(0, 40))), ("capname", cap)]
    elif cls == "net":
        fam = rng.choice(["inet", "inet6", "netlink", "packet"])
        f += [("operation", rng.choice(["create", "connect", "bind", "sendmsg"])), ("class", "net"), ("profile", profile), ("pid", pid), ("comm", comm), ("family", fam),
              ("sock_type", rng.choice(["stream", "dgram", "raw"])), ("protocol", str(rng.choice([0, 6, 17, 15]))), ("requested_mask", rng.choice(["create", "send receive", "connect"])),
              ("denied_mask", "create")]
    elif cls == "unix":
        f += [("operation", rng.choice(["connect", "file_perm", "sendmsg"])), ("class", rng.choice(["net", "unix"])), ("profile", profile), ("pid", pid), ("comm", comm), ("family", "unix"),
              ("sock_type", rng.choice(["stream", "dgram", "seqpacket"])), ("protocol", "0"), ("requested_mask", rng.choice(["send receive", "connect", "receive", "send receive connect"])),
              ("denied_mask", "send receive"), ("addr", rng.choice(["none", "@/tmp/.X11-unix/X0", "@/tmp/dbus-zq" + ts_])),
              ("peer_addr", rng.choice(["none", "@/tmp/.ICE-unix/" + ts_, "@/run/user/1000/bus-zq" + ts_])), ("peer", rng.choice(PROFILES + ["unconfined"]))]
    elif cls == "signal":
        f += [("operation", "signal"), ("class", "signal"), ("profile", profile), ("pid", pid), ("comm", comm), ("requested_mask", rng.choice(["send", "receive"])),
              ("denied_mask", "send"), ("signal", rng.choice(["term", "kill", "hup", "usr1", "int", "exists"])), ("peer", rng.choice(PROFILES + ["unconfined"]))]
    elif cls == "ptrace":
        f += [("operation", "ptrace"), ("class", "ptrace"), ("profile", profile), ("pid", pid), ("comm", comm), ("requested_mask", rng.choice(["read", "readby", "trace", "tracedby"])),
              ("denied_mask", "read"), ("peer", rng.choice(PROFILES + ["unconfined"]))]
    elif cls == "dbus":
        mask = rng.choice(["send", "receive", "bind"])
        f += [("operation", {"send": "dbus_method_call", "receive": "dbus_signal", "bind": "dbus_bind"}[mask]), ("bus", rng.choice(["system", "session"]))]
        if mask == "bind":
            f += [("name", "org.example.T" + ts_), ("mask", "bind"), ("pid", pid), ("label", profile)]
        else:
            f += [("path", "/org/example/T" + ts_), ("interface", rng.choice(["org.freedesktop.DBus.Properties", "org.example.Iface"])), ("member", rng.choice(["Get", "Changed", "Ping"])),
                  ("mask", mask), ("name", rng.choice([":1.%d" % rng.randint(1, 999), "org.example.Svc"])), ("pid", pid), ("label", profile), ("peer_pid", str(rng.randint(100, 9999))),
                  ("peer_label", rng.choice(PROFILES + ["unconfined"]))]
    elif cls in ("mount", "umount", "remount", "pivotroot"):
        f += [("operation", {"remount": "mount"}.get(cls, cls)), ("class", "mount")]
        if rng.random() < 0.3:
            f += [("info", "failed mntpnt match"), ("error", "-13")]
        f += [("profile", profile), ("name", name.rsplit("/", 1)[0] + "/m" + ts_ + "/"), ("pid", pid), ("comm", comm)]
        if cls in ("mount", "remount"):
            f += [("fstype", rng.choice(["tmpfs", "ext4", "proc"])), ("srcname", rng.choice(["tmpfs", "/dev/sda1", "/run/s" + ts_ + "/"]))]
            flags = rng.choice(["rw, nosuid, nodev", "ro, bind", "rw, rbind", "rw, rprivate"])
            if cls == "remount":
                flags = "rw, remount, " + rng.choice(["bind", "nosuid"])
            f.append(("flags", flags))
        if cls == "pivotroot":
            f.append(("srcname", name.rsplit("/", 1)[0] + "/old" + ts_ + "/"))
    elif cls == "mqueue":
        f += [("operation", rng.choice(["mq_open", "mq_unlink"])), ("class", rng.choice(["posix_mqueue", "sysv_mqueue"])), ("profile", profile), ("name", "/q" + ts_), ("pid", pid), ("comm", comm),
              ("requested", "create"), ("denied", "create")]
    elif cls == "io_uring":
        f += [("operation", "uring_sqpoll"), ("class", "io_uring"), ("profile", profile), ("pid", pid), ("comm", comm), ] + (lambda a: [("requested", a), ("denied", a)])(rng.choice(["sqpoll", "override_creds"]))
    elif cls == "rlimit":
        # kernel: audit_log_format(ab, " rlimit=%s value=%lu", ...), both bare
        f += [("operation", "setrlimit"), ("class", "rlimits"), ("profile", profile), ("pid", pid), ("comm", comm),
              ("rlimit", rng.choice(["nofile", "nproc", "memlock", "stack", "core", "fsize", "as", "msgqueue"])), ("value", str(rng.choice([0, 1024, 4096, 65536, 8388608, 1048576 + tag])))]
    elif cls == "userns":
        f += [("operation", "userns_create"), ("class", "namespace"),
              ("info", rng.choice(["Userns create restricted - failed to find unprivileged_userns profile", "Userns create - namespace creation restricted"])), ("error", "-13"),
              ("profile", profile), ("pid", pid), ("comm", comm), ("requested", "userns_create"), ("denied", "userns_create")]
    return {"fields": f, "cls": cls, "tag": tag, "values": dict((x[0], x[1]) for x in f), "status": status, "profile": profile}


def variant(rng, rec, tag):
    """A second, distinct access of the same subject: the record with exactly one meaningful field changed (new tag in comm only)."""
    pools = {"unix": [("peer_addr", ["none", "@/tmp/.ICE-unix/2211", "@/tmp/.X11-unix/X1"]), ("addr", ["none", "@/tmp/.X11-unix/X0", "@/tmp/dbus-fixed"])],
             "signal": [("signal", ["term", "kill", "hup", "usr1", "int"])], "ptrace": [("peer", PROFILES)], "cap": [("capname", ["net_admin", "sys_ptrace", "chown", "kill"])],
             "net": [("sock_type", ["stream", "dgram", "raw"])], "dbus": [("member", ["Get", "Changed", "Ping", "Set"])], "file": [("requested_mask", ["r", "w", "k", "m", "a", "c", "d", "ac", "rw", "wr"])]}
    opts = pools.get(rec["cls"])
    if not opts:
        return None
    key, vals = rng.choice(opts)
    cur = dict((x[0], x[1]) for x in rec["fields"])
    if key not in cur:
        return None
    choices = [v for v in vals if v != cur[key]]
    if not choices:
        return None
    new = rng.choice(choices)
    ts_ = tagstr(tag)
    f = []
    for (k, v) in rec["fields"]:
        if k == key:
            v = new
        elif k == "denied_mask" and key == "requested_mask":
            v = new
        elif k == "comm":
            v = "c" + ts_
        f.append((k, v))
    out = dict(rec)
    out.update({"fields": f, "tag": tag, "values": dict(f), "variant_of": rec["tag"], "name_tag": rec.get("name_tag", rec["tag"])})
    return out
