"""C14 - aa-log shows every matching AppArmor event exactly once, and only those
(offline checker over the recorded history: uniquely tagged records in, reported events out)."""
import json
import os
import re
import subprocess

from . import logsgen
from .common import digest, pmap

RE_TAG = re.compile(r"comm=\"?c([g-p]+)\b|/org/example/T([g-p]+)\b|org\.example\.T([g-p]+)\b")
RE_ANSI = re.compile(r"\x1b\[[0-9;]*m")
NOISE_NAMES = ["/dev/null", "/usr/share/locale/fr/LC_MESSAGES/x.mo", "/etc/ld.so.cache", "/usr/lib/libc.so.6", "/dev/urandom", "/usr/share/zoneinfo/UTC", "/dev/zero"]
FOREIGN = ["type=BPF msg=audit(1700000000.1:5): prog-id=60 op=LOAD", "Jan  5 10:00:00 host systemd[1]: Started foo.service.", "garbled \x00 line",
           "type=SYSCALL msg=audit(1700000000.1:6): arch=c000003e syscall=59 success=yes", "", "   ", "apparmor", "apparmor=\"WHATEVER\" operation=\"open\""]


# entries journald really produces next to the kernel messages: binary MESSAGE as byte array, boot markers
JOURNAL_FOREIGN = [{"raw_json": '{"MESSAGE": [104, 101, 108, 108, 111, 255], "SYSLOG_IDENTIFIER": "other"}'}, {"raw_json": "-- Boot 4d3f2a1b --"},
                   {"raw_json": '{"MESSAGE": null}'}, {"raw_json": '{"_PID": "12", "MESSAGE": "plain message"}'}]


def tag_of(line):
    m = RE_TAG.search(line)
    if not m:
        return None
    return untag(next(g for g in m.groups() if g))


def untag(s):
    return int("".join(str("ghijklmnop".index(c)) for c in s))


def gen_file(rng, fid, journald):
    """Returns (lines: list[bytes], records: list of dict with expectation fields, trigger or None, profiles)."""
    nprof = rng.randint(2, 6)
    profs = rng.sample(logsgen.PROFILES, nprof)
    if rng.random() < 0.12:
        profs[0] = rng.choice(["bar baz", "My App"])      # the kernel hex-encodes such a profile name
    for pz in list(profs):
        if "." in pz and rng.random() < 0.5:
            profs.append(pz.replace(".", "x"))              # a decoy that only a regex reading of the filter would select
    n = rng.randint(5, 400 if rng.random() < 0.2 else 60)
    lines = []
    recs = []
    tag = fid * 1000
    trigger = None
    seen_clean = set()
    for i in range(n):
        r = rng.random()
        if r < 0.62:
            tag += 1
            cls = None
            if journald and rng.random() < 0.3:
                cls = "dbus"
            rec = logsgen.gen_record(rng, tag, cls=cls, profile=rng.choice(profs), tame=True)
            if rng.random() < 0.15:
                k = rng.randint(1, 4)
                rec["fields"] = rec["fields"] + [("xk%d" % j, "v%d" % rng.randint(0, 9)) for j in rng.sample(range(9), k)]
            if rng.random() < 0.15:
                # another field order (the kernel's order differs between classes and versions): pid=/peer_pid= as the last field
                last = [x for x in rec["fields"] if x[0] in ("pid", "peer_pid")][-1:]
                rec["fields"] = [x for x in rec["fields"] if x not in last] + last
            rec["expect"] = True
            rec["line_no"] = len(lines)
            recs.append(rec)
            lines.append(rec)
        elif r < 0.70 and recs:
            # a repeat of an earlier record: same fields, other timestamp and pid
            src = rng.choice(recs)
            dup = dict(src)
            dup["fields"] = [(k, str(rng.randint(100, 99999)) if k in ("pid", "peer_pid") else v) for (k, v) in src["fields"]]
            dup["expect"] = False
            dup["repeat_of"] = src["tag"]
            lines.append(dup)
        elif r < 0.76 and recs:
            # the ALLOWED/DENIED twin of an earlier record: a different event, must be kept
            src = rng.choice([x for x in recs if x.get("expect")] or recs)
            tag += 1
            tw = dict(src)
            st = "ALLOWED" if src["status"] != "ALLOWED" else "DENIED"
            tw["fields"] = [("apparmor", st) if k == "apparmor" else (("comm", "c" + logsgen.tagstr(tag)) if k == "comm" else (k, v.replace("T" + logsgen.tagstr(src["tag"]), "T" + logsgen.tagstr(tag)) if isinstance(v, str) else v))
                            for (k, v) in src["fields"]]
            tw["status"] = st
            tw["tag"] = tag
            tw["expect"] = True
            recs.append(tw)
            lines.append(tw)
        elif r < 0.82:
            tag += 1
            rec = logsgen.gen_record(rng, tag, cls="file", profile=rng.choice(profs), tame=True)
            rec["fields"] = [(k, rng.choice(NOISE_NAMES) if k == "name" else v) for (k, v) in rec["fields"]]
            rec["expect"] = False
            rec["noise"] = True
            lines.append(rec)
        elif r < 0.88:
            tag += 1
            rec = logsgen.gen_record(rng, tag, cls="file", status="STATUS", profile=rng.choice(profs), tame=True)
            rec["fields"] = [("apparmor", "STATUS"), ("operation", "profile_replace"), ("info", "same as current profile, skipping"), ("profile", "unconfined"),
                             ("name", rng.choice(profs)), ("pid", "77"), ("comm", "c" + logsgen.tagstr(tag))]
            rec["expect"] = False
            lines.append(rec)
        elif r < 0.91:
            # a truncated record (cut inside a quoted value): malformed, it may or may not be shown, but nothing after it may suffer
            tag += 1
            rec = logsgen.gen_record(rng, tag, cls="file", profile=rng.choice(profs), tame=True)
            vals = dict(rec["fields"])
            rec["fields"] = [("apparmor", vals["apparmor"]), ("operation", vals["operation"]), ("comm", vals["comm"]), ("profile", vals["profile"]), ("name", vals["name"])]
            rec["truncated"] = True
            rec["expect"] = False
            rec["optional"] = True
            lines.append(rec)
        elif r < 0.94:
            lines.append(rng.choice(JOURNAL_FOREIGN))
        else:
            lines.append(rng.choice(FOREIGN))
    # at most one hostile trigger per file, most files have none
    x = rng.random()
    if x < 0.08:
        trigger = "long-line"
        size = rng.choice([65535, 65536, 65537, 1 << 20])
        lines.insert(rng.randrange(len(lines) + 1), "x" * size)
    elif x < 0.11 and recs:
        # a genuine record that is itself longer than 64 KiB (a very deep path)
        trigger = "long-record"
        big = rng.choice([r for r in recs if r.get("expect") and "/" in dict(r["fields"]).get("name", "")] or recs)
        deep = "/deep" * 14000
        big["fields"] = [(k, (v.rsplit("/", 1)[0] + deep + "/" + v.rsplit("/", 1)[1]) if k == "name" and "/" in v else v) for (k, v) in big["fields"]]
    elif x < 0.14:
        trigger = "invalid-utf8"
        lines.insert(rng.randrange(len(lines) + 1), b"Jan  5 host kernel: \xff\xfe\x80 broken bytes")
    elif x < 0.20:
        trigger = "no-final-newline"
    return lines, recs, trigger, profs


def encode_file(rng, lines, journald, trigger):
    out = []
    serial = 0
    for l in lines:
        serial += 1
        if isinstance(l, dict) and "raw_json" in l:
            out.append((l["raw_json"] if journald else "journal: " + l["raw_json"]).encode())
        elif isinstance(l, dict):
            if journald:
                fr = "journald-dbus" if l["cls"] == "dbus" else "journald"
            else:
                fr = "dbus-syslog" if l["cls"] == "dbus" else l.get("framing") or rng.choice(["audit", "syslog"])
            txt = logsgen.render(l["fields"], framing=fr, serial=serial, ts="17000%05d.%03d" % (serial, serial % 1000))
            if l.get("truncated"):
                if fr.startswith("journald"):
                    import json as _j
                    o = _j.loads(txt)
                    o["MESSAGE"] = o["MESSAGE"][:-3]
                    txt = _j.dumps(o, ensure_ascii=False)
                else:
                    txt = txt[:-3]
            out.append(txt.encode("utf-8", "surrogateescape"))
        elif isinstance(l, bytes):
            if journald:
                continue            # journald JSON input is line-wise JSON: raw bytes are not a journald line
            out.append(l)
        else:
            if journald:
                if not l.strip() or "\x00" in l:
                    continue
                out.append(json.dumps({"MESSAGE": l, "SYSLOG_IDENTIFIER": "other"}).encode())
            else:
                out.append(l.encode("utf-8", "surrogateescape"))
    data = b"\n".join(out)
    if trigger != "no-final-newline":
        data += b"\n"
    return data


def expected_tags(lines, filt):
    """Tags of the records that must be reported, in input order."""
    exp = []
    seen = set()
    for l in lines:
        if not isinstance(l, dict) or "raw_json" in l or l.get("optional"):
            continue
        if l.get("noise") or l["fields"][0][1] not in ("ALLOWED", "DENIED", "AUDIT"):
            continue
        vals = dict((k, v) for (k, v) in l["fields"])
        if filt is not None and not (vals.get("profile", "\0").startswith(filt) or vals.get("label", "\0").startswith(filt)):
            continue
        key = tuple((k, v) for (k, v) in l["fields"] if k not in ("pid", "peer_pid"))
        if key in seen:
            continue
        seen.add(key)
        exp.append(l["tag"])
    return exp


def run(ctx):
    ctx.build_bins(worker=False)
    rng = ctx.rng
    nfiles = 300 if ctx.tier == "quick" else 6000
    ctx.rule = ("each (generated log file, source format, output mode, filter) run of the real aa-log binary is one case (journald files are read once with -s -f FILE and once through a stub `journalctl` command, same output required): every input record "
                "carries a unique tag that survives all output modes, so the reported events are matched to input records: none missing, none "
                "twice, none unexpected, input order kept (raw and default modes), exit status 0, same bytes on a second run. Files mix "
                "records of every class with STATUS records, foreign/garbled/blank lines, repeats up to timestamp and pid, ALLOWED/DENIED "
                "twins, noise paths, extra keys, and at most one hostile trigger (64 KiB +-1 / 1 MiB line, invalid UTF-8, no final newline). "
                "Non-trivial = runs with a filter, a trigger, a repeat or a twin")
    d = ctx.mkdir("logs")
    aalog = os.path.join(ctx.bins, "aa-log")
    stubdir = ctx.mkdir("stub-bin")
    with open(os.path.join(stubdir, "journalctl"), "w") as f:
        f.write('#!/bin/sh\nexec cat "$VERIF_JCTL_FILE"\n')
    os.chmod(os.path.join(stubdir, "journalctl"), 0o755)
    jobs = []
    for fid in range(nfiles):
        journald = rng.random() < 0.3
        lines, recs, trigger, profs = gen_file(rng, fid, journald)
        data = encode_file(rng, lines, journald, trigger)
        path = os.path.join(d, "f%d.log" % fid)
        with open(path, "wb") as f:
            f.write(data)
        filters = [None, rng.choice(profs), rng.choice(profs)[:rng.randint(2, 5)]]
        if rng.random() < 0.3:
            filters.append("nomatch-zz")
        for mode in ("default", "raw", "rules"):
            for filt in filters:
                jobs.append((fid, path, journald, mode, filt, lines, trigger))

    from . import race
    rb = race.build(ctx)
    rl = race.logdir(ctx, "aa-log")
    n_race = 90 if ctx.tier == "quick" else 1500
    race_ids = {id(j) for j in jobs[:n_race]}

    def runone(j):
        fid, path, journald, mode, filt, lines, trigger = j
        cmd = [aalog]
        if journald:
            cmd.append("-s")
        cmd += ["-f", path]
        if mode == "raw":
            cmd.append("-R")
        elif mode == "rules":
            cmd.append("-r")
        if filt is not None:
            cmd.append(filt)
        res = []
        for k in range(2):
            run_cmd, run_env = cmd, None
            if journald and k == 1:
                # second run of a journald file: the same JSON lines arrive from the `journalctl` command (a stub on PATH that
                # prints the file) instead of -f FILE, the tool's other way of reading the journal
                run_cmd = [c for c in cmd if c not in ("-f", path)]
                run_env = dict(os.environ, PATH=stubdir + os.pathsep + os.environ.get("PATH", ""), VERIF_JCTL_FILE=path)
            try:
                p = subprocess.run(run_cmd, stdout=subprocess.PIPE, stderr=subprocess.PIPE, timeout=120, env=run_env)
                res.append((p.returncode, p.stdout, p.stderr))
            except subprocess.TimeoutExpired:
                res.append((None, b"", b"timeout"))
        if id(j) in race_ids and res[0][0] == 0:
            # the same run on the binary built with the race detector: same output, no report
            try:
                p = subprocess.run([os.path.join(rb, "aa-log")] + cmd[1:], stdout=subprocess.PIPE, stderr=subprocess.PIPE, timeout=600,
                                   env=dict(os.environ, GORACE=race.gorace(rl)))
                if p.returncode != 0 or p.stdout != res[0][1]:
                    res[1] = (p.returncode, p.stdout, p.stderr)       # reported below as a run that differs from the first
            except subprocess.TimeoutExpired:
                pass
        return j, res

    agg = {}

    def viol(key, what, case):
        agg.setdefault(key, []).append((what, case))

    results = pmap(runone, jobs)
    race.judge(ctx, "C14", rl, "aa-log, %d runs" % min(n_race, len(jobs)), min(n_race, len(jobs)))
    for j, res in results:
        fid, path, journald, mode, filt, lines, trigger = j
        has_rep = any(isinstance(l, dict) and "repeat_of" in l for l in lines)
        optional = {l["tag"] for l in lines if isinstance(l, dict) and l.get("optional")}
        nt = digest(str(fid), mode, str(filt)) if (filt is not None or trigger or has_rep) else None
        ctx.case(nt, {"file": "f%d.log" % fid, "format": "journald" if journald else "audit/syslog", "mode": mode, "filter": filt, "trigger": trigger} if nt and fid < 3 else None)
        fmt = "journald" if journald else "text"
        cls = "/" + trigger if trigger else ""
        case = {"cmd": "aa-log %s-f FILE %s %s" % ("-s " if journald else "", {"raw": "-R", "rules": "-r", "default": ""}[mode], filt or ""), "file": path,
                "content_b64": None}
        (rc, out, err), (rc2, out2, err2) = res
        if rc is None:
            ctx.inconcl("aa-log timed out on f%d" % fid)
            continue
        if rc != 0:
            viol("C14/exit-status/%s%s" % (fmt, cls), "aa-log exited %s: %s" % (rc, (out + err)[-300:].decode("utf-8", "replace")), dict(case, data=_head(path)))
            continue
        if out != out2 or rc2 != rc:
            viol("C14/not-deterministic/%s/%s" % (fmt, mode), "two runs on the same input print different output%s" % (
                " (journald lines read with -f FILE, then from the journalctl command)" if journald else ""), dict(case, data=_head(path)))
            continue
        text = RE_ANSI.sub("", out.decode("utf-8", "replace"))
        exp = expected_tags(lines, filt)
        if mode == "rules":
            # in rules mode a record is identified by the tag inside its path (a twin shares the path of its source)
            def name_tag(l):
                nm = dict((k, v) for (k, v) in l["fields"]).get("name", "")
                m = re.search(r"zq([g-p]+)\b", nm)
                return untag(m.group(1)) if m else None
            file_recs = [l for l in lines if isinstance(l, dict) and "raw_json" not in l and not l.get("optional") and l["cls"] in ("file", "exec", "link") and not l.get("noise")]
            file_tags = {name_tag(l) for l in file_recs} - {None}
            got = set(untag(x) for x in re.findall(r"zq([g-p]+)\b", text)) - optional
            exps = set(exp)
            want = {name_tag(l) for l in file_recs if l["tag"] in exps} - {None}
            missing = sorted(want - got)
            extra = sorted(t for t in got if t in file_tags and t not in want)
            hexprof_names = {name_tag(l) for l in file_recs if logsgen.needs_hex(dict((k, v) for (k, v) in l["fields"]).get("profile", ""))}
            if not optional and (re.search(r"^profile\s*\{", text, re.M) or "unknown log type: :map[]" in (err.decode("utf-8", "replace") + text)):
                viol("C14/rules/nameless-profile%s" % cls, "f%d %s: a rule block without a profile name is printed (an event that is not in the input)" % (fid, case["cmd"]),
                     dict(case, data=_head(path)))
            if missing and filt is not None and set(missing) <= hexprof_names:
                viol("C14/rules/missing/filter-on-hex-encoded-profile", "f%d %s: no rule for record(s) %s" % (fid, case["cmd"], missing[:5]), dict(case, data=_head(path)))
            elif missing:
                viol("C14/rules/missing%s" % cls, "f%d %s: no rule for record(s) %s" % (fid, case["cmd"], missing[:5]), dict(case, data=_head(path)))
            if extra:
                viol("C14/rules/unexpected%s" % cls, "f%d %s: rules for record(s) %s that should not be reported" % (fid, case["cmd"], extra[:5]), dict(case, data=_head(path)))
            continue
        got = []
        body = text[:-1] if text.endswith("\n") else text
        out_lines = body.split("\n") if body != "" else []
        if mode == "raw" and out_lines == [""]:
            out_lines = []          # raw mode prints one newline when there is nothing to report
        empties = 0
        for line in out_lines:
            if not line.strip():
                empties += 1
                if empties <= len(optional):
                    continue        # a truncated (malformed) record may be shown as an empty entry
                viol("C14/%s/empty-entry%s" % (mode, cls), "f%d %s: an empty event is reported (no input record is empty)" % (fid, case["cmd"]), dict(case, data=_head(path)))
                continue
            t = tag_of(line)
            if t is None:
                viol("C14/%s/unidentified-entry%s" % (mode, cls), "f%d %s: output entry matches no input record: %r" % (fid, case["cmd"], line[:200]), dict(case, data=_head(path)))
                continue
            if t not in optional:
                got.append(t)
        ctx.extra["events_matched"] = ctx.extra.get("events_matched", 0) + len(set(got) & set(exp))
        if got == exp:
            continue
        gs, es = set(got), set(exp)
        if len(gs) != len(got):
            twice = sorted(t for t in gs if got.count(t) > 1)
            viol("C14/%s/reported-twice%s" % (mode, cls), "f%d %s: record(s) %s reported more than once" % (fid, case["cmd"], twice[:5]), dict(case, data=_head(path)))
        elif es - gs:
            fcls = "/filter" if filt is not None and not (set(expected_tags(lines, None)) - gs) else ""
            hexprof = {l["tag"] for l in lines if isinstance(l, dict) and "raw_json" not in l and logsgen.needs_hex(dict((k, v) for (k, v) in l["fields"]).get("profile", ""))}
            if filt is not None and (es - gs) <= hexprof:
                fcls = "/filter-on-hex-encoded-profile"
            viol("C14/%s/missing%s%s" % (mode, fcls, cls if "hex-encoded" not in fcls else ""), "f%d %s: record(s) %s not reported (%d expected, %d reported)" % (
                fid, case["cmd"], sorted(es - gs)[:5], len(exp), len(got)), dict(case, data=_head(path)))
        elif gs - es:
            fcls = "/filter" if filt is not None else ""
            viol("C14/%s/unexpected%s%s" % (mode, fcls, cls), "f%d %s: record(s) %s reported but should have been dropped" % (fid, case["cmd"], sorted(gs - es)[:5]),
                 dict(case, data=_head(path)))
        else:
            viol("C14/%s/order%s" % (mode, cls), "f%d %s: events not in input order" % (fid, case["cmd"]), dict(case, data=_head(path)))
    for key, lst in sorted(agg.items()):
        ctx.violation(key, "%s  [%d run(s)]" % (lst[0][0][:600], len(lst)), lst[0][1])
    ctx.extra.update({"files": nfiles, "runs": len(jobs)})
    ctx.require(ctx.extra.get("events_matched", 0) >= 5 * nfiles, "only %d reported events were matched to input records" % ctx.extra.get("events_matched", 0))


def _head(path):
    try:
        with open(path, "rb") as f:
            return f.read(20000).decode("latin-1")
    except OSError:
        return ""
