"""C13 - variable resolution is plain substitution and keeps the rest of the preamble
(differential against the reference parser's own expansion)."""
import re

from . import refparser, worker
from .common import digest, pmap

NAMES = ["exec_path", "lib_dirs", "name", "conf", "data_dirs", "bin_x", "v1", "v2"]
BUILTIN = ["bin", "lib", "sbin"]      # written the same way in the library table and in the shipped tunables (value lists are compared as written)
LITS = ["/usr/bin/foo", "/opt/app", "/usr/lib/app/", "/etc/app.d", "/{a,b}", "/srv/[0-9]*", "/x//y", "bin", "lib{,64}", "/opt/app/", "/"]


def gen_case(rng, i, stratum):
    """Returns (text, expectation tag)."""
    lines = []
    for _ in range(rng.randint(0, 4)):
        lines.append(rng.choice(["# apparmor.d - Full set of apparmor profiles", "# Copyright (C) 2024 x", "# a comment, with = and @{notavar}", "# vim:syntax=apparmor"]))
    abi_first = rng.random() < 0.5
    if abi_first and rng.random() < 0.7:
        lines.append("abi <abi/3.0>,")
    if rng.random() < 0.3:
        lines.append("")
    builtin = stratum == "builtin"
    if builtin:
        # the file is resolved on top of the library's built-in copy of the shipped tunables (as the build does): references to,
        # and appends to, variables of tunables/global
        lines.append("include <tunables/global>")
    nvars = rng.randint(1, 6)
    names = rng.sample(NAMES, nvars)
    if "exec_path" in names:
        names.remove("exec_path")
    names.append("exec_path")
    defined = []

    def value(allow_refs=True, exclude=None):
        parts = []
        n = rng.randint(1, 3)
        # only variables defined before the one being written may be referenced: the plain strata are cycle-free
        refs = defined[:defined.index(exclude)] if exclude in defined else list(defined)
        for _ in range(n):
            r = rng.random()
            if builtin and allow_refs and r < 0.25:
                parts.append("@{%s}" % rng.choice(BUILTIN))
                parts.append(rng.choice(["/sub", "/p%d" % i, "/{c,d}"]))
            elif allow_refs and refs and r < 0.5:
                parts.append("@{%s}" % rng.choice(refs))
                if rng.random() < 0.5:
                    parts.append(rng.choice(["/sub", "/", "-x", "/{c,d}", "//z"]))
            else:
                parts.append(rng.choice(LITS))
        v = "".join(parts)
        if not v.startswith("/") and not v.startswith("@{"):
            v = "/" + v
        if stratum == "quoted" and rng.random() < 0.4:
            # a value with a blank, written in quotes as the shipped tree does (`@{name} = proton-mail "Proton Mail"`)
            v = '"%s/My App%d"' % (v.rstrip("/"), rng.randint(1, 3))
        return v

    appends = []
    counts = {}      # number of expanded values per variable (bounded: <= 256)

    def cost(v):
        c = 1
        for ref in re.findall(r"@\{(\w+)\}", v):
            c *= counts.get(ref, 1)
        return c

    def bounded(vals, nm):
        out = []
        tot = counts.get(nm, 0)
        for v in vals:
            if tot + cost(v) <= 48:
                out.append(v)
                tot += cost(v)
        counts[nm] = tot
        return out

    if builtin and rng.random() < 0.4:
        bv = rng.choice(BUILTIN)
        lines.append("@{%s} += /opt/p%d/%s" % (bv, i, bv))
        counts[bv] = 2
    for nm in names:
        vals = [value() for _ in range(rng.randint(1, 3))]
        if rng.random() < 0.15 and defined:
            d = rng.choice(defined)
            vals.append("@{%s}@{%s}" % (d, d) if rng.random() < 0.5 else "@{%s}/m/@{%s}" % (d, rng.choice(defined)))
        vals = bounded(vals, nm) or bounded(["/lit/" + nm], nm)
        lines.append("@{%s} = %s" % (nm, " ".join(vals)))
        defined.append(nm)
        if rng.random() < 0.3:
            lines.append(rng.choice(["# between", "", "# note: @{%s}" % nm]))
        # appends anywhere after the definition
        for _ in range(rng.choice([0, 0, 1, 2, 3])):
            appends.append(nm)
        while appends and rng.random() < 0.6:
            a = appends.pop(rng.randrange(len(appends)))
            vs = bounded([value(exclude=a) for _ in range(rng.randint(1, 2))], a)
            if vs:
                lines.append("@{%s} += %s" % (a, " ".join(vs)))
    for a in appends:
        vs = bounded([value(exclude=a)], a)
        if vs:
            lines.append("@{%s} += %s" % (a, vs[0]))
    if not abi_first and rng.random() < 0.5:
        lines.append("abi <abi/3.0>,")
    if rng.random() < 0.2:
        lines.append("alias /usr/ -> /mnt/usr/,")
    tag = "ok"
    if stratum == "undefined":
        k = rng.randrange(len(lines) + 1)
        lines.insert(k, "@{ghost_user} = /x/@{ghost}/y")
        tag = "error"
    elif stratum == "self":
        lines.append("@{selfref} = /a/@{selfref}")
        tag = "error"
    elif stratum == "self-append":
        lines.append("@{sa} = /a")
        lines.append("@{sa} += @{sa}/y")
        tag = "error"
    elif stratum == "cycle2":
        lines.append("@{ca} = @{cb}/x")
        lines.append("@{cb} = @{ca}/y")
        tag = "error"
    elif stratum == "cycle3":
        lines.append("@{ca} = @{cb}/x /lit")
        lines.append("@{cb} = /lit2 @{cc}/y")
        lines.append("@{cc} = @{ca}/z")
        tag = "error"
    elif stratum == "redefine":
        lines.append("@{%s} = /again" % rng.choice(defined))
        tag = "error"
    elif stratum == "append-first":
        lines.insert(rng.randrange(len(lines) + 1) if False else 0, "@{early} += /e")
        lines.append("@{early} = /late")
        tag = "error"
    att = rng.choice(["@{exec_path}", "@{exec_path}", "/usr/bin/lit", ""])
    if tag == "ok" and stratum == "plain" and rng.random() < 0.15:
        # a reference that is not the first thing in the attachment
        att = rng.choice(["/srv/@{%s}", "/opt/{a,b}@{%s}/tool", "/srv/x@{%s}"]) % rng.choice(defined)
    hdr = "profile p%d%s {" % (i, (" " + att) if att else "")
    text = "\n".join(lines) + "\n" + hdr + "\n  /etc/x r,\n}\n"
    return text, tag, att


def expansion_sizes(text):
    """Number of expanded values per variable of a cycle-free preamble (None if it cannot be evaluated)."""
    vals = {}
    for m in re.finditer(r"^@\{(\w+)\}\s*\+?=\s*(.*)$", text, re.M):
        vals.setdefault(m.group(1), []).extend(m.group(2).split())
    memo = {}

    def size(v, depth=0):
        if depth > 50:
            return 10 ** 9
        if v not in memo:
            tot = 0
            for val in vals.get(v, []):
                c = 1
                for ref in re.findall(r"@\{(\w+)\}", val):
                    c *= size(ref, depth + 1) if ref in vals else 1
                tot += c
            memo[v] = tot
        return memo[v]
    return {v: size(v) for v in vals}


def gen_bounded(rng, i, stratum, limit=200):
    for _ in range(50):
        text, tag, att = gen_case(rng, i, stratum)
        if stratum in ("cycle2", "cycle3", "self", "self-append") or max(expansion_sizes(text).values() or [0]) <= limit:
            plain = re.sub(r"^@\{(selfref|sa|ca|cb|cc)\}.*$", "", text, flags=re.M)
            if max(expansion_sizes(plain).values() or [0]) <= limit:
                return text, tag, att
    return text, tag, att


def parser_expand(text, att, ov=None):
    """Reference expansion: {name: set(values)} or ('error', message)."""
    ptxt = text
    if att:
        # expose the attachment through a variable of its own (the parser prints variables only)
        k = ptxt.rfind("\nprofile ")
        ptxt = ptxt[:k] + "\n@{zz_verif_att} = %s" % att + ptxt[k:]
    used = sorted(set(re.findall(r"^@\{(\w+)\}\s*\+?=", ptxt, re.M)))
    body = "".join("  /verif/@{%s} r,\n" % u for u in used)
    ptxt = re.sub(r"\{\n  /etc/x r,\n\}\n$", "{\n" + body + "}\n", ptxt)
    rc, vals, err = refparser.expanded_variables(ptxt, ov=ov if "include <tunables/global>" in ptxt else None)
    if rc is None:
        return ("timeout", "")
    msg = " ".join(l for l in err.split("\n") if l and not l.startswith("Cache") and not re.match(r"^@\w+ =", l))
    if rc != 0 or re.search(r"referenced recursively|references undefined variable|failure expanding", msg):
        return ("error", msg[-200:])
    return ("ok", {k: set(collapse(v) for v in vs) for k, vs in vals.items() if k in used})


def collapse(v):
    while "//" in v:
        v = v.replace("//", "/")
    return v


def run(ctx):
    refparser.require()
    ctx.build_bins()
    rng = ctx.rng
    n = 3000 if ctx.tier == "quick" else 100000
    ncyc = 12 if ctx.tier == "quick" else 120
    ctx.rule = ("each generated preamble (0-8 comments, abi before/after, 1-6 variables, += anywhere after the definition, nested and repeated "
                "references, alternations, '//'; error strata: undefined, self-reference, += self-reference, cycles of length 2-3, second "
                "definition; files resolved on top of the built-in tunables table that reference and append to shipped variables) is one case: Parse+Resolve of the real library (worker, CPU and memory limited, cycle cases one per "
                "process) vs apparmor_parser -d -D expanded-variables on the same text: same value sets per variable and attachment, same "
                "accept/reject, and every non-variable preamble entry kept. Non-trivial = preambles with a += or a reference")
    # ("+= before =" is not among the errors the statement lists: not generated)
    strata = ["plain"] * 9 + ["builtin"] * 3 + ["undefined", "self", "self-append", "redefine", "quoted"]
    from .c09 import source_overlay
    ov = source_overlay(ctx)
    cases = []
    for i in range(n):
        st = rng.choice(strata)
        cases.append((st,) + gen_bounded(rng, i, st))
    cyc = []
    for i in range(ncyc):
        st = rng.choice(["cycle2", "cycle3"])
        cyc.append((st,) + gen_bounded(rng, n + i, st))
    refs = pmap(lambda c: parser_expand(c[1], c[3], ov), cases + cyc)
    # library: resolve=False (to know the preamble before) and resolve=True
    def lib_batch(chunk):
        reqs = []
        for i, c in enumerate(chunk):
            dflt = c[0] == "builtin"
            reqs.append({"id": "%da" % i, "do": "file", "text": c[1], "defaults": dflt})
            reqs.append({"id": "%db" % i, "do": "file", "text": c[1], "resolve": True, "defaults": dflt})
        return worker.run_isolating(ctx, "aa", reqs, lambda r, e: None, timeout=300, cpu_s=30, vmem_kb=2 << 20)

    chunks = [cases[i:i + 300] for i in range(0, len(cases), 300)]
    libs = []
    for part in pmap(lib_batch, chunks):
        libs += list(zip(part[0::2], part[1::2]))

    def one_cycle(c):
        reqs = [{"id": "a", "do": "file", "text": c[1]}, {"id": "b", "do": "file", "text": c[1], "resolve": True}]
        try:
            r = worker.run_batch(ctx, "aa", reqs, timeout=20, cpu_s=5, vmem_kb=1 << 20)
            return (r[0], r[1])
        except worker.WorkerDied as d:
            return ({"died": True}, {"died": True, "stderr": d.stderr[-200:], "rc": d.rc})

    libs += pmap(one_cycle, cyc, workers=4)
    agg = {}

    def viol(key, what, case):
        agg.setdefault(key, []).append((what, case))

    for (st, text, tag, att), ref, (before, after) in zip(cases + cyc, refs, libs):
        nt = digest(text) if ("+=" in text or "@{" in text.split("profile p")[0].replace("@{exec_path} =", "")) else None
        ctx.case(nt, {"preamble": text[:400], "stratum": st} if nt and st != "plain" else None)
        if ref[0] == "timeout":
            ctx.inconcl("reference parser timeout")
            continue
        if after.get("died"):
            viol("C13/hang-or-crash/%s" % st, "Resolve did not return (killed after the CPU/memory limit) where the reference parser says: %s\n%s" % (
                ref[1] if ref[0] == "error" else "ok", text[-300:]), {"text": text})
            continue
        if "panic" in after:
            viol("C13/panic/%s" % st, "Resolve panicked (%s); reference parser: %s\n%s" % (after["panic"][:120], ref[0], text[-300:]), {"text": text})
            continue
        if worker.timed_out(ctx, after):
            continue
        if "ok" not in after:
            # Parse error of the library
            if ref[0] == "error":
                continue
            viol("C13/parse-rejects-valid/%s" % st, "Parse failed (%s) on a preamble the reference parser accepts\n%s" % (after.get("error"), text[-300:]), {"text": text})
            continue
        lib_err = after["ok"].get("resolve_error")
        if ref[0] == "error":
            if not lib_err:
                viol("C13/accepts-invalid/%s" % st, "Resolve succeeded where the reference parser reports: %s\n%s" % (ref[1], text[-300:]), {"text": text})
            continue
        if lib_err:
            viol("C13/rejects-valid/%s" % st, "Resolve failed (%s) on a preamble the reference parser expands\n%s" % (lib_err, text[-400:]), {"text": text})
            continue
        # values
        want = ref[1]
        got = {}
        for r in after["ok"]["preamble"]:
            if r["kind"] == "variable":
                f = r["fields"]
                got.setdefault(f["Name"], set()).update(collapse(v) for v in (f.get("Values") or []))
        bad = None
        for name, vals in want.items():
            if name == "zz_verif_att":
                h = after["ok"]["profiles"][0]["header"] if after["ok"]["profiles"] else {}
                g = set(collapse(v) for v in (h.get("Attachments") or []))
                if g != vals:
                    bad = ("attachment", g, vals)
                continue
            if got.get(name) != vals:
                bad = (name, got.get(name), vals)
                break
        if bad:
            miss = sorted((bad[2] or set()) - (bad[1] or set()))[:3]
            extra = sorted((bad[1] or set()) - (bad[2] or set()))[:3]
            quoted_in = st == "quoted" and re.search(r'^@\{\w+\}\s*\+?=.*"', text, re.M)
            viol("C13/quoted-value/values-differ" if quoted_in else "C13/values-differ/%s" % ("attachment" if bad[0] == "attachment" else "variable"),
                 "%s resolves differently from the reference parser: missing %s, extra %s\n%s" % (bad[0], miss, extra, text[-400:]), {"text": text})
            continue
        # the rest of the preamble is kept
        if "ok" in before:
            keep = lambda dump: [(r["kind"], r["text"]) for r in dump if r["kind"] in ("comment", "abi", "include", "alias")]
            if keep(before["ok"]["preamble"]) != keep(after["ok"]["preamble"]):
                viol("C13/preamble-entry-lost", "a comment/abi/include/alias entry was lost or altered by Resolve:\n%s\n -> %s" % (
                    keep(before["ok"]["preamble"])[:6], keep(after["ok"]["preamble"])[:6]), {"text": text})
                continue
            # appended entries are folded into the definition: no += entry may remain and no definition may vanish
            defs_before = [r["fields"]["Name"] for r in before["ok"]["preamble"] if r["kind"] == "variable" and r["fields"].get("Define")]
            defs_after = [r["fields"]["Name"] for r in after["ok"]["preamble"] if r["kind"] == "variable" and r["fields"].get("Define")]
            if defs_before != defs_after:
                viol("C13/definition-lost", "variable definitions %s -> %s" % (defs_before, defs_after), {"text": text})
    for key, lst in sorted(agg.items()):
        ctx.violation(key, "%s  [%d case(s)]" % (lst[0][0][:700], len(lst)), lst[0][1])
    nok = sum(1 for r in refs if r[0] == "ok")
    ctx.require(nok >= 0.5 * len(cases), "the reference parser expanded only %d of %d preambles" % (nok, len(cases)))
    ctx.extra.update({"preambles": len(cases), "cycle_cases": len(cyc),
                      "reference_rejected": sum(1 for r in refs if r[0] == "error")})
