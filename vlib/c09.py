"""C09 - rule text round-trips through the printer and the parser."""
import os
import shutil

from . import refparser, rulegen, worker
from .common import REPO, digest, pmap


def source_overlay(ctx):
    """Upstream policy directory + the tunables and abstractions of one real build (ABI 3 form), for stub profiles."""
    ov = os.path.join(ctx.scratch, "ov-src")
    if os.path.exists(ov):
        return ov
    from . import matrix
    ctx.build_bins()
    b = matrix.run_build(ctx, matrix.Cfg("arch", "3", "4.0", "none", "normal"), tag="overlay", tap=False)
    if b.rc != 0:
        from .common import HarnessError
        raise HarnessError("cannot build the overlay configuration: " + b.log[-300:])
    refparser.make_overlay(ov, b.aad, "4.0", "3", setaside=True)
    shutil.rmtree(b.root, ignore_errors=True)
    return ov


def stub(texts):
    return "abi <abi/3.0>,\ninclude <tunables/global>\nprofile verif_stub {\n%s\n}\n" % "\n".join("  " + t for t in texts)


def calibrate(ctx, rules, ov):
    """Keep the rules whose canonical rendering the reference parser accepts (AppArmor-3 kinds)."""
    def ok(r):
        if r["kind"] not in rulegen.AA3_KINDS:
            return True
        rc, out, err = refparser.dump_struct(stub([rulegen.canon(r)]), ov=ov, timeout=60)
        return rc == 0
    flags = pmap(ok, rules)
    return [r for r, f in zip(rules, flags) if f], sum(1 for f in flags if not f)


def run(ctx):
    refparser.require()
    ctx.build_bins()
    rng = ctx.rng
    n_rules, n_blocks, n_files = (5000, 500, 500) if ctx.tier == "quick" else (150000, 15000, 15000)
    ctx.rule = ("each generated valid rule (all 18 block kinds, all optional-field subsets, qualifiers, quoted paths, alternations, "
                "variables, comments; validity = Validate() is nil and, for AppArmor-3 kinds, the harness's canonical rendering is accepted by "
                "apparmor_parser), each block of 2-12 rules after Merge+Sort+Format, and each generated profile file is one case: "
                "parse(canonical text) equals the generator's intent field by field; parse(print(r)) equals r and print(parse(print(r))) "
                "equals print(r). Non-trivial = rules with at least two optional fields set or a qualifier, blocks that Format padded, files "
                "with more than one preamble rule")
    ov = source_overlay(ctx)
    rules = [rulegen.gen_rule(rng) for _ in range(n_rules)]
    rules, out_of_domain = calibrate(ctx, rules, ov)
    ctx.extra["out_of_domain_rules"] = out_of_domain
    agg = {}

    def viol(key, what, case):
        agg.setdefault(key, []).append((what, case))

    # --- single rules ---------------------------------------------------------------------
    reqs = [{"id": i, "do": "rules", "text": "  " + rulegen.canon(r) + "\n\n", "validate": True} for i, r in enumerate(rules)]
    reps = batched(ctx, reqs)
    second = []
    for r, rep in zip(rules, reps):
        text = rulegen.canon(r)
        nt = digest(text) if nontrivial_rule(r) else None
        ctx.case(nt, {"rule": text} if nt else None)
        cls = classify(r)
        if worker.timed_out(ctx, rep):
            continue
        if "ok" not in rep:
            viol(("C09/parse-fails/%s" % r["kind"]) if not cls else ("C09" + cls), "ParseRules failed on `%s`: %s" % (text, rep.get("error") or rep.get("panic") or rep), {"text": text})
            continue
        ok = rep["ok"]
        if ok.get("validate_error"):
            ctx.extra["validate_rejected"] = ctx.extra.get("validate_rejected", 0) + 1
            continue   # out of the library's own domain
        parsed = ok["parsed"]
        if len(parsed) != 1:
            viol("C09/rule-count/%s%s" % (r["kind"], cls), "`%s` parsed into %d rules" % (text, len(parsed)), {"text": text})
            continue
        p0 = parsed[0]
        diffs = rulegen.compare_intent(r, p0["kind"], p0["fields"])
        if diffs:
            viol(("C09/parse-differs-from-text/%s/%s" % (r["kind"], diffs[0].split(":")[0])) if not cls else (("C09/parse-differs-from-text" + cls) if "bare" in cls else ("C09" + cls)),
                 "`%s` was read as %s" % (text, "; ".join(diffs)[:300]), {"text": text, "parsed": p0})
            continue
        second.append((r, p0))
    reqs = [{"id": i, "do": "rules", "text": "  " + p0["text"] + "\n\n"} for i, (r, p0) in enumerate(second)]
    reps = batched(ctx, reqs)
    for (r, p0), rep in zip(second, reps):
        ctx.case(None)
        cls = classify(r)
        t1 = p0["text"]
        if worker.timed_out(ctx, rep):
            continue
        if "ok" not in rep:
            viol("C09/reparse-fails/%s%s" % (r["kind"], cls), "the library cannot read back its own `%s`: %s" % (t1, rep.get("error") or rep.get("panic")), {"text": t1})
            continue
        parsed = rep["ok"]["parsed"]
        if len(parsed) != 1:
            viol("C09/reparse-rule-count/%s%s" % (r["kind"], cls), "printed `%s` parsed back into %d rules" % (t1, len(parsed)), {"text": t1})
            continue
        p1 = parsed[0]
        a = rulegen.normalise_fields(p0["kind"], p0["fields"])
        b = rulegen.normalise_fields(p1["kind"], p1["fields"])
        if p0["kind"] != p1["kind"] or a != b:
            d = [k for k in set(a) | set(b) if a.get(k) != b.get(k)]
            viol("C09/roundtrip-fields/%s/%s%s" % (r["kind"], sorted(d)[0] if d else "kind", cls),
                 "`%s` printed as `%s` parsed back differently in %s: %r vs %r" % (rulegen.canon(r), t1, d, [a.get(k) for k in d], [b.get(k) for k in d]), {"text": t1})
        elif p1["text"] != t1:
            viol("C09/reprint-differs/%s%s" % (r["kind"], cls), "print(parse(print)) differs: `%s` vs `%s`" % (t1, p1["text"]), {"text": t1})
    # --- same rules again, interleaved with profile-file parses in the same process ---------
    plain = [{"id": i, "do": "rules", "text": "  " + rulegen.canon(r) + "\n\n"} for i, r in enumerate(rules)]
    FILES = ["# only line rules\ninclude <tunables/global>\n@{exec_path} = @{bin}/foo\nprofile foo @{exec_path} {\n  include if exists <local/foo>\n}\n",
             "abi <abi/4.0>,\n\ninclude <tunables/global>\n\n@{exec_path} = @{bin}/bar\n@{exec_path} += @{lib}/bar\nprofile bar @{exec_path} flags=(complain) {\n  include if exists <local/bar>\n}\n",
             "# tunable\n@{lib_dirs} = @{lib}/x @{lib}/y\n"]
    mixed = []
    for i, rq in enumerate(plain):
        if i % 3 == 0:
            mixed.append({"id": "f%d" % i, "do": "file", "text": FILES[(i // 3) % len(FILES)]})
        mixed.append(rq)
    r1 = batched(ctx, plain)
    r2 = [x for x in batched(ctx, mixed) if not str(x.get("id", "")).startswith("f")]
    for r, a, b in zip(rules, r1, r2):
        ctx.case(None)
        ka = json_key(a)
        kb = json_key(b)
        if ka != kb:
            viol("C09/carried-parser-state/%s" % r["kind"], "`%s` parses differently after a profile file was parsed in the same process: %s vs %s" % (
                rulegen.canon(r), kb[:200], ka[:200]), {"text": rulegen.canon(r)})
    # --- blocks ---------------------------------------------------------------------------
    blocks = []
    for i in range(n_blocks):
        k = rng.randint(2, 12)
        if i % 4 == 3:
            # dense paragraph: few paths, few access lists, so that Merge really merges next to rules that must stay as written
            # (and the same access spelling is read many times in one process)
            paths = rng.sample(["/var/lib/app/lock", "/var/lib/app/db", "@{run}/app.pid", "/etc/app.conf", "@{HOME}/.cache/app/**", "@{lib}/app/helper"], 3)
            accs = rng.sample([["r", "w", "k"], ["r", "w"], ["m"], ["r"], ["w", "k"], ["m", "r"], ["r", "w", "l", "k"], ["l"], ["m", "r", "ix"], ["r", "ix"]], 4)
            bl = []
            for _ in range(rng.randint(4, 9)):
                a = list(rng.choice(accs))
                bl.append({"kind": "file", "Comment": "", "Owner": False, "Target": "", "Audit": False, "AccessType": "", "Path": rng.choice(paths), "Access": a})
            # one exec mode per path at most (two modes on one path are not valid policy)
            seen_x = {}
            for r in bl:
                x = [a for a in r["Access"] if a.endswith("x")]
                if x:
                    if seen_x.setdefault(r["Path"], x[0]) != x[0]:
                        r["Access"] = [a for a in r["Access"] if not a.endswith("x")] or ["r"]
            blocks.append(bl)
            continue
        blocks.append([rng.choice(rules) for _ in range(k)])
    reqs = [{"id": i, "do": "rules", "text": "".join("  " + rulegen.canon(r) + "\n" for r in bl) + "\n",
             "pipeline": ["merge", "sort", "format"]} for i, bl in enumerate(blocks)]
    reps = batched(ctx, reqs)
    second = []
    for bl, rep in zip(blocks, reps):
        bcls = next((classify(r) for r in bl if classify(r) == "/equals-in-path"), "")
        if worker.timed_out(ctx, rep):
            continue
        if "ok" not in rep:
            ctx.case(None)
            viol("C09/block/pipeline-fails" if not bcls else "C09" + bcls, "Merge+Sort+Format failed: %s" % (rep.get("error") or rep.get("panic")), {"block": [rulegen.canon(r) for r in bl]})
            continue
        parsed = rep["ok"]["parsed"]
        if len(parsed) != len(bl):
            ctx.case(None)
            viol("C09/block/parse-rule-count" if not bcls else "C09" + bcls, "a paragraph of %d rules was read as %d rules:\n%s" % (len(bl), len(parsed), "\n".join(rulegen.canon(r) for r in bl)),
                 {"block": [rulegen.canon(r) for r in bl]})
            continue
        bad = None
        for r, p0 in zip(bl, parsed):
            d = rulegen.compare_intent(r, p0["kind"], p0["fields"])
            if d and classify(r) != "/bare-keyword-with-comment":
                bad = (r, d)
                break
        if bad:
            ctx.case(None)
            viol(("C09/block/parse-differs-from-text/%s" % bad[0]["kind"]) if not bcls else "C09" + bcls, "in a paragraph, `%s` was read as %s" % (rulegen.canon(bad[0]), bad[1]),
                 {"block": [rulegen.canon(r) for r in bl]})
            continue
        second.append((bl, rep["ok"]))
    reqs = [{"id": i, "do": "rules", "text": ok["text"] + "\n", "pipeline": ["format"]} for i, (bl, ok) in enumerate(second)]
    reps = batched(ctx, reqs)
    for (bl, ok), rep in zip(second, reps):
        T = ok["text"]
        padded = "  " in T.replace("\n  ", "\n")
        ctx.case(digest(T) if padded else None, {"block": T} if padded else None)
        kinds = sorted({r["kind"] for r in bl})
        if worker.timed_out(ctx, rep):
            continue
        if "ok" not in rep:
            viol("C09/block/reparse-fails/%s" % "+".join(kinds)[:60], "the library cannot read back its formatted block: %s\n%s" % (rep.get("error") or rep.get("panic"), T), {"block": T})
            continue
        want = [x for x in ok["rules"] if x["kind"] != "nil"]
        got = [x for x in rep["ok"]["parsed"] if x["kind"] != "nil"]
        if len(want) != len(got):
            viol("C09/block/rule-count", "formatted block of %d rules parsed back into %d\n%s" % (len(want), len(got), T), {"block": T})
            continue
        bad = None
        for w, g in zip(want, got):
            if w["kind"] != g["kind"] or rulegen.normalise_fields(w["kind"], w["fields"]) != rulegen.normalise_fields(g["kind"], g["fields"]):
                bad = (w, g)
                break
        if bad:
            # (the recorded finding: a comment behind a rule that consists of its keyword only is dropped, in a paragraph as well)
            head = bad[0]["text"].split("#")[0].strip()
            words = [w_ for w_ in head.rstrip(",").split() if w_ not in ("audit", "deny", "allow")]
            lost_comment = len(words) == 1 and "#" in bad[0]["text"] and "#" not in bad[1]["text"] and head == bad[1]["text"].strip()
            viol("C09/parse-differs-from-text/bare-keyword-with-comment" if lost_comment else "C09/block/roundtrip-fields/%s" % bad[0]["kind"],
                 "formatted rule `%s` parsed back as `%s`" % (bad[0]["text"], bad[1]["text"]), {"block": T})
        elif rep["ok"]["text"] != T:
            viol("C09/block/reformat-differs", "re-formatting the parsed block gives different text", {"block": T, "again": rep["ok"]["text"]})
    # --- profile files --------------------------------------------------------------------
    files(ctx, n_files, viol)
    for key, lst in sorted(agg.items()):
        ctx.violation(key, "%s  [%d case(s)]" % (lst[0][0][:600], len(lst)), lst[0][1])
    ctx.require(len(rules) >= 0.5 * n_rules, "only %d of %d generated rules are in the domain" % (len(rules), n_rules))
    ctx.extra.update({"rules": len(rules), "blocks": n_blocks, "files": n_files})


def json_key(rep):
    import json
    if "ok" in rep:
        return json.dumps([(x["kind"], rulegen.normalise_fields(x["kind"], x["fields"]) if isinstance(x["fields"], dict) else None) for x in rep["ok"]["parsed"]], sort_keys=True)
    return "ERR:" + str(rep.get("error") or rep.get("panic"))


def batched(ctx, reqs, size=2000):
    chunks = [reqs[i:i + size] for i in range(0, len(reqs), size)]
    out = []
    for part in pmap(lambda ch: worker.run_isolating(ctx, "aa", ch, lambda r, e: None, timeout=900), chunks):
        out += part
    return out


def nontrivial_rule(r):
    opt = sum(1 for k, v in r.items() if k not in ("kind", "Audit", "AccessType", "Comment") and v not in ("", [], False))
    return opt >= 2 or r.get("Audit") or r.get("AccessType")


def classify(r):
    """Input-predicate suffix for finding keys (keeps recorded findings narrow)."""
    if r["kind"] == "mqueue" and not r.get("Name"):
        return "/no-name"
    if any("=" in str(r.get(k, "")) for k in ("Path", "Target", "Source", "MountPoint", "OldRoot", "NewRoot", "Exec")):
        return "/equals-in-path"
    if r.get("Comment"):
        bare = dict(r)
        bare["Comment"] = ""
        bare["Audit"] = False
        bare["AccessType"] = ""
        if len(rulegen.canon(bare).rstrip(",").split()) == 1:
            return "/bare-keyword-with-comment"
    return ""


COMMENTS = ["# apparmor.d - Full set of apparmor profiles", "# Copyright (C) 2024 Someone", "# SPDX-License-Identifier: GPL-2.0-only", "# a, comment with = signs"]


def files(ctx, n, viol):
    rng = ctx.rng
    cases = []
    for i in range(n):
        pre = []
        intent = []
        for c in rng.sample(COMMENTS, rng.randint(0, 3)):
            pre.append(c)
            intent.append(("comment", c[1:]))
        abi = rng.random() < 0.8
        if abi:
            pre.append("abi <abi/4.0>,")
        for inc in rng.sample(["tunables/global", "tunables/extra"], rng.randint(0, 2)):
            pre.append("include <%s>" % inc)
            intent.append(("include", inc))
        alias = rng.random() < 0.15
        if alias:
            pre.append("alias /usr/ -> /User/,")
        name = "p%d" % i
        nvars = rng.randint(0, 3)
        for k in range(nvars):
            vn = "v%d_%d" % (i, k) if k else "exec_path"
            vals = [rng.choice(["@{bin}/" + name, "/opt/%s/{a,b}" % name, "@{lib}/%s/x" % name, "/usr/share/%s/**" % name]) for _ in range(rng.randint(1, 3))]
            pre.append("@{%s} = %s" % (vn, " ".join(vals)))
            intent.append(("variable", (vn, vals, True)))
            if rng.random() < 0.3:
                more = ["/usr/bin/%s-extra" % name]
                pre.append("@{%s} += %s" % (vn, " ".join(more)))
                intent.append(("variable", (vn, more, False)))
        att = "@{exec_path}" if nvars and rng.random() < 0.8 else rng.choice(["", "/usr/bin/" + name])
        flags = rng.choice([[], ["complain"], ["attach_disconnected", "complain"]])
        xattrs = {}
        if rng.random() < 0.15:
            for kx in rng.sample(["user.tag", "security.tagged", "user.kind", "security.apparmor"], rng.randint(1, 3)):
                xattrs[kx] = rng.choice(["x", "allowed", "*", "y-%s" % name])
        if rng.random() < 0.08:
            name = '"%s app"' % name        # a profile name with a blank is written in quotes
        hdr = "profile " + name + ((" " + att) if att else "")
        if xattrs:
            hdr += " xattrs=(" + " ".join("%s=%s" % kv for kv in xattrs.items()) + ")"
        if flags:
            hdr += " flags=(" + ",".join(flags) + ")"
        text = "\n".join(pre) + "\n" + hdr + " {\n  include <abstractions/base>\n\n  /etc/%s r,\n\n  include if exists <local/%s>\n}\n" % (name, name)
        cases.append((text, intent, abi, alias, name, att, flags, xattrs))
    reqs = [{"id": i, "do": "file", "text": c[0]} for i, c in enumerate(cases)]
    reps = batched(ctx, reqs)
    second = []
    for c, rep in zip(cases, reps):
        text, intent, abi, alias, name, att, flags, xattrs = c
        ctx.case(digest(text) if len(intent) > 1 else None)
        if worker.timed_out(ctx, rep):
            continue
        if "ok" not in rep:
            viol("C09/file/parse-fails", "Parse failed: %s\n%s" % (rep.get("error") or rep.get("panic"), text[:400]), {"text": text})
            continue
        ok = rep["ok"]
        got = []
        nabi = nalias = 0
        for r in ok["preamble"]:
            f = r["fields"] if isinstance(r["fields"], dict) else {}
            if r["kind"] == "comment":
                got.append(("comment", f.get("Comment", "")))
            elif r["kind"] == "include":
                got.append(("include", f.get("Path")))
            elif r["kind"] == "variable":
                got.append(("variable", (f.get("Name"), f.get("Values") or [], f.get("Define"))))
            elif r["kind"] == "abi":
                nabi += 1
            elif r["kind"] == "alias":
                nalias += 1
        want = [(k, (v if k != "variable" else (v[0], v[1], v[2]))) for k, v in intent]
        got = [(k, (v if k != "variable" else (v[0], list(v[1]), v[2]))) for k, v in got]
        if got != want:
            viol("C09/file/preamble-order-or-content", "preamble read as %s, written %s" % (got[:6], want[:6]), {"text": text})
            continue
        if nabi != (1 if abi else 0) or nalias != (1 if alias else 0):
            viol("C09/file/abi-alias-set", "abi/alias rules read %d/%d, written %d/%d" % (nabi, nalias, abi, alias), {"text": text})
            continue
        if len(ok["profiles"]) != 1:
            viol("C09/file/header-count", "%d profile headers read" % len(ok["profiles"]), {"text": text})
            continue
        h = ok["profiles"][0]["header"]
        hx = h.get("Xattrs") or {}
        if h.get("Name") != name or (h.get("Attachments") or []) != ([att] if att else []) or sorted(h.get("Flags") or []) != sorted(flags) or dict(h.get('Attributes') or hx) != xattrs:
            viol("C09/file/header-fields", "header read as %r, written name=%s att=%r flags=%s xattrs=%s" % (h, name, att, flags, xattrs), {"text": text})
            continue
        second.append((c, ok))
    reqs = [{"id": i, "do": "file", "text": ok["text"]} for i, (c, ok) in enumerate(second)]
    reps = batched(ctx, reqs)
    for (c, ok), rep in zip(second, reps):
        ctx.case(None)
        if worker.timed_out(ctx, rep):
            continue
        if "ok" not in rep:
            viol("C09/file/reparse-fails", "the library cannot read back the file it rendered: %s\n%s" % (rep.get("error") or rep.get("panic"), ok["text"][:400]), {"text": ok["text"]})
            continue
        a = [(r["kind"], rulegen.normalise_fields(r["kind"], r["fields"])) for r in ok["preamble"]]
        b = [(r["kind"], rulegen.normalise_fields(r["kind"], r["fields"])) for r in rep["ok"]["preamble"]]
        seq = lambda l: [x for x in l if x[0] in ("comment", "include", "variable")]
        st = lambda l: sorted(repr(x) for x in l if x[0] in ("abi", "alias"))
        if seq(a) != seq(b) or st(a) != st(b):
            viol("C09/file/roundtrip-preamble", "preamble changed through render+parse: %s -> %s" % (a[:5], b[:5]), {"text": ok["text"]})
        elif ok["profiles"] != rep["ok"]["profiles"]:
            viol("C09/file/roundtrip-header", "header changed through render+parse: %s -> %s" % (ok["profiles"], rep["ok"]["profiles"]), {"text": ok["text"]})
        elif ok["text"] != rep["ok"]["text"]:
            viol("C09/file/rerender-differs", "rendering the parsed file again gives different text", {"text": ok["text"], "again": rep["ok"]["text"]})
