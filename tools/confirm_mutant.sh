#!/bin/bash
# usage: tools/confirm_mutant.sh <Cxx> <a|b>
# Confirms a seeded change from /tmp/mut/<Cxx>/out/<v>: demo passes on clean HEAD, patch applies, builds,
# the repository's stable suite still passes, demo fails with the patch. On success archives it in /verif/seeded/<Cxx><v>/.
export GOFLAGS=-mod=mod GOPROXY=off GOSUMDB=off GOTOOLCHAIN=local
P=$1; V=$2; SRC=${MUTBASE:-/tmp/mut}/$P/out/$V; ID=$P$V
[ -f "$SRC/patch.diff" ] || { echo "no patch in $SRC"; exit 2; }
WT=/tmp/mutconf/$ID
rm -rf "$WT"; git -C /repo worktree prune; mkdir -p /tmp/mutconf
git -C /repo worktree add --detach -q "$WT" HEAD || exit 2
cleanup() { git -C /repo worktree remove --force "$WT" 2>/dev/null; rm -rf "$WT"; git -C /repo worktree prune; }
trap cleanup EXIT
LOG=/tmp/mutconf/$ID.log; : > "$LOG"
echo "== demo on clean HEAD" >>"$LOG"
(cd "$SRC" && timeout 1500 bash ./run_demo.sh "$WT") >>"$LOG" 2>&1; rc_clean=$?
(cd "$WT" && git checkout -q -- . && git clean -fdq)
echo "== apply" >>"$LOG"
git -C "$WT" apply "$SRC/patch.diff" >>"$LOG" 2>&1 || { echo "$ID: PATCH DOES NOT APPLY"; exit 1; }
(cd "$WT" && go build ./... ) >>"$LOG" 2>&1 || { echo "$ID: DOES NOT BUILD"; exit 1; }
echo "== suite" >>"$LOG"
rc_suite=1
for try in 1 2 3; do   # the suite shares /tmp/tests with any concurrent run of itself: retry before believing a failure
  /verif/tools/baseline.sh "$WT" >>"$LOG" 2>&1; rc_suite=$?
  [ $rc_suite -eq 0 ] && break
done
(cd "$WT" && git checkout -q -- debian/apparmor.d.hide 2>/dev/null; rm -rf .build)
echo "== demo with patch" >>"$LOG"
(cd "$SRC" && timeout 1500 bash ./run_demo.sh "$WT") >>"$LOG" 2>&1; rc_mut=$?
echo "$ID: demo_clean_rc=$rc_clean suite_rc=$rc_suite demo_patched_rc=$rc_mut"
if [ $rc_clean -eq 0 ] && [ $rc_suite -eq 0 ] && [ $rc_mut -ne 0 ]; then
  D=/verif/seeded/$ID; rm -rf "$D"; mkdir -p "$D"
  cp -r "$SRC"/. "$D"/
  /usr/bin/python3 - "$D" "$ID" "$rc_clean" "$rc_suite" "$rc_mut" <<'PY'
import json,sys,subprocess
d,i,a,b,c=sys.argv[1:]
try: m=json.load(open(d+'/meta.json'))
except Exception: m={}
m['id']=i
m['confirmed']={'by':'tools/confirm_mutant.sh in a scratch worktree of /repo HEAD','repo_head':subprocess.run(['git','-C','/repo','rev-parse','--short','HEAD'],capture_output=True,text=True).stdout.strip(),
  'demo_on_clean_rc':int(a),'stable_suite_rc_with_patch':int(b),'demo_with_patch_rc':int(c)}
json.dump(m,open(d+'/meta.json','w'),indent=1)
PY
  echo "$ID: CONFIRMED -> $D"
else
  echo "$ID: NOT CONFIRMED (see $LOG)"; exit 1
fi
