#!/bin/bash
# usage: tools/run_mutant.sh <seeded-id> <check-id>...
# Runs quick checks against a scratch copy of /repo's HEAD with the seeded patch applied (VERIF_REPO),
# so /repo itself is never touched. Use tools/run_mutant_inplace.sh for the apply/undo procedure on /repo.
ID=$1; shift
P=/verif/seeded/$ID/patch.diff
[ -f "$P" ] || { echo "no $P"; exit 2; }
R=/tmp/mutrepo/$ID; rm -rf "$R"; mkdir -p "$R"
git -C /repo archive HEAD | tar -x -C "$R" || exit 2
(cd "$R" && git init -q . && git apply "$P") || { echo "$ID: patch does not apply"; rm -rf "$R"; exit 2; }
trap 'rm -rf "$R"' EXIT
for C in "$@"; do
  out=$(cd /verif && VERIF_REPO=$R VERIF_OUT_DIR=/tmp/mutconf/out/$ID ./check "$C" ${TIER:-quick} 2>&1); rc=$?
  echo "MUTANT $ID check $C rc=$rc violation_lines=$(echo "$out" | grep -c '^VIOLATION')"
  echo "$out" | grep -A2 '^VIOLATION' | grep -v '^--' | head -${SHOW:-6}
  echo "$out" | grep 'HARNESS-ERROR' | head -3
done
