#!/bin/bash
# usage: tools/run_mutant.sh <seeded-id> <check-id>...   (applies the seeded patch to /repo, runs the quick checks, reverts)
ID=$1; shift
P=/verif/seeded/$ID/patch.diff
[ -f "$P" ] || { echo "no $P"; exit 2; }
cd /repo || exit 2
[ -z "$(git status --porcelain)" ] || { echo "/repo not clean"; git status --short | head; exit 2; }
git apply "$P" || { echo "$ID: patch does not apply"; exit 2; }
revert() { git -C /repo checkout -q -- . ; git -C /repo clean -fdq; }
trap revert EXIT
for C in "$@"; do
  out=$(cd /verif && VERIF_OUT_DIR=/tmp/mutconf/out ./check "$C" ${TIER:-quick} 2>&1); rc=$?
  echo "MUTANT $ID check $C rc=$rc $(echo "$out" | grep -c '^VIOLATION') violation line(s)"
  echo "$out" | grep -A2 '^VIOLATION' | head -${SHOW:-6}
  echo "$out" | grep 'HARNESS-ERROR' | head -3
done
