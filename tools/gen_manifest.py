#!/usr/bin/python3
"""Writes MANIFEST.json. CLAIMED lists the properties that have a registered check."""
import json, os, subprocess
V = os.path.dirname(os.path.dirname(os.path.abspath(__file__)))
hook_commits = subprocess.run(["git", "-C", "/repo", "log", "--format=%H", "--grep=^verif:"], capture_output=True, text=True).stdout.split()

CHECKS = {
 "C01": dict(cat="exploration", tech="differential monitor: real prebuild output of each configuration parsed by the reference apparmor_parser over an overlay",
   text="Runs the real prebuild for a pairwise-covering set of configurations (quick) or all 180 (thorough, exhaustive over configurations x files) and has the reference AppArmor parser 3.0.8 read every output profile (and, through stubs, every abstraction/tunable no profile reaches); thorough adds a full DFA compile of every distinct file. A pass means: no file of the explored configurations is rejected.",
   note="Trusted: apparmor_parser 3.0.8 + /etc/apparmor.d as reference; 4.1 stand-in files; abi/4.0 stood in by abi/3.0; AppArmor-4-only statements set aside by the harness scanner.", ref="5 C01"),
 "C19": dict(cat="exploration", tech="invariant monitor over the complete source corpus + dynamic confirmation at the builder tap",
   text="Every profile file and abstraction of the source tree is read by an independent scanner and checked against each clause of the layout contract (exhaustive over the finite corpus); one real build per distribution confirms through the `built` tap that every conforming profile had its attachment resolved.",
   note="Trusted: the harness scanner's notion of header/include/block.", ref="5 C19"),
 "C17": dict(cat="exploration", tech="invariant monitor on the final output of real --full builds (source rule -> built counterpart), task list observed at the tap",
   text="Every source rule written r+PUx / r+Ux without target is followed into every explored --full configuration (quick: covering set + one per distribution; thorough: all 90, exhaustive) and every statement of every output file is scanned for a surviving unconfined fallback; the tap confirms the fsp builder was registered.",
   note="Trusted: the harness scanner's reading of file rules (path, access letters, exec mode, target).", ref="5 C17"),
 "C04": dict(cat="exploration", tech="reference-model monitor at the `prepared` tap: snapshot of the real prepare stage vs an independent manifest model, over configurations x build-directory histories",
   text="The real prepare stage is run for 12 (quick) / all 60 (thorough, exhaustive) (distribution, ABI, version, full) configurations from a clean directory and again on a build directory left by another configuration plus junk; the tap snapshot is compared path by path and byte by byte with what an independent model of the manifests predicts (ignore lists, flattening, configure, full-policy step, overwrite renames/links, drop-ins). A constructed base-name clash must be seen in every run.",
   note="Trusted: the manifest model in vlib/model.py (documented semantics, written without the project's code); the two full-policy file edits are accepted only in their documented form.", ref="5 C04"),
 "C08": dict(cat="exploration", tech="invariant monitor over real builds: references (exec targets, change_profile, stack components, drop-ins) resolved against blocks defined in the same output",
   text="For every distribution x normal/full (quick) or all 180 configurations (thorough, exhaustive) the real build output is scanned: each named transition target, change_profile target, stack component and AppArmorProfile= must resolve to a block defined in that same output (or the upstream policy it overlays, or a shipped variable); directive, flags-manifest and overwrite-list names are resolved against the source tree. Recorded data defects are listed in known_findings.json by (file, target).",
   note="Trusted: scanner's block/target extraction; Cx targets resolve as children of the current profile (checked against the reference parser's x-table naming).", ref="5 C08"),
 "C02": dict(cat="exploration", tech="history monitor: manifests (sha256 of every output path) of repeated real prebuild runs under different build-directory histories; in-process sequences in fresh worker processes; builds with and without generated hosts naming the same profiles; the same builds under the Go race detector",
   text="Each chosen configuration is built twice from clean directories, once on a directory left by another configuration plus junk, and 6-8 more times when it contains multi-argument stack/exec directives; all manifests must be equal. At API level every file with a generating directive is run 20x in one process and, alone in a fresh process vs inside seed-drawn sequences of other files, must produce the same text. A deliberately non-deterministic directive registered only in the worker must be seen in every run.",
   note="Trusted: sha256; the worker calls directive.Run of /repo's working tree. Map-order defects are probabilistic: repetitions bound the miss probability, they do not remove it.", ref="5 C02"),
 "C05": dict(cat="exploration", tech="differential monitor across the three mode builds of the same (distribution, ABI, version, full) + generated headers through the real builders",
   text="For 10 (quick) / all 60 (thorough, exhaustive) groups the none/complain/enforce builds are compared block by block (main profile, sub-profiles, hats, in every file): complain present/absent as the mode demands, all other flags and the rest of the header equal to the neither build, and the neither build's flags equal to the source flags as overridden by the flags manifests; 300 / 6000 generated multi-block headers go through the real complain/enforce builders in the worker.",
   note="Trusted: the harness header parser (cross-checked against apparmor_parser -N block enumeration on one configuration per run).", ref="5 C05"),
 "C18": dict(cat="exploration", tech="differential monitor over pairs of real builds at Hamming distance one, every differing line classified by an expected-difference model",
   text="Pairs of configurations differing in exactly one option (quick: all neighbours of two base configurations + seed-drawn pairs, ~45 pairs; thorough: all 900, exhaustive) are built for real and compared file by file and line by line; every differing file, link or line must be explained by a rule of the changed option (header flags; abi declaration / commented AppArmor-4 statement / overwrite renames; guarded source lines whose guard flips; manifest-model file sets; documented full-policy edits; exec-mode u removal; drop-in model).",
   note="Trusted: the manifest model, the guard index built from the source tree, difflib line alignment on non-blank lines (blank lines are layout).", ref="5 C18"),
 "C03": dict(cat="exploration", tech="reference-model monitor: real directive.Run in worker processes started per distribution vs an independent directive model; marker scan of real build outputs",
   text="Every shipped file carrying only/exclude x all 30 (distribution, ABI, version) targets (exhaustive), the text entering the directive stage in real builds (tap), and 1500 / 30000 generated profiles (inline and paragraph forms, several filter words, repeated identical markers, sub-profiles, back-to-back paragraphs) are run through the real filter step and compared with the model on the sequence of non-blank lines with their indentation; no marker may survive, also not in real build outputs.",
   note="Trusted: the directive model in vlib/c03.py (documented semantics; paragraphs end at the next empty line); blank lines are layout.", ref="5 C03"),
 "C07": dict(cat="exploration", tech="reference-model monitor on directive expansions (worker) + leftover scan of real build outputs + reference parser acceptance",
   text="Every output file of every explored configuration is scanned for a leftover `#aa:`; every shipped dbus/exec/stack directive and 1800 / 37000 generated ones are expanded by the real directive.Run in a minimal host with a real build directory as root and the generated text is compared with the documented expansion (bus, bind, peer label, path, interfaces; requested transition per executable; ordered body minus the three exclusions, host rules untouched); distinct shipped dbus expansions are parsed by apparmor_parser.",
   note="Trusted: the harness scanner; the exact executable set of exec directives is judged by C06 (language equivalence), here only transition, duplicates and a lower bound; comment lines are not rules.", ref="5 C07"),
 "C06": dict(cat="translation_validation", tech="translation validation against the reference parser: stub policy with @{exec_path} vs stub with the built literal, compiled by apparmor_parser; automata equivalence with witness when bytes differ",
   text="For every built profile whose source attaches through @{exec_path} (all ~1400, per distribution) and every exec-directive target, a stub policy using the variable over the shipped tunables of that build and a stub using the literal text the build produced are compiled by the reference parser: equal bytes = same set of executables; different bytes are settled by language equivalence of the two dumped attachment automata, with a shortest path matched by one side only as witness. Generated preambles go through the real userspace builder the same way.",
   note="Trusted: apparmor_parser 3.0.8 (canonical compiled output; -D dfa-states dumps parsed by vlib/dfa.py, ambiguous dumps are inconclusive). programs = stub pairs compiled, disagreements_checked = pairs settled by automata.", ref="5 C06"),
 "C09": dict(cat="exploration", tech="round-trip monitor in the worker: generated valid rules/blocks/files printed and re-parsed by the real library, intent model for the first parse, interleaved file parses for carried state",
   text="5000 / 150000 generated valid rules of all kinds (validity: Validate() and, for AppArmor-3 kinds, acceptance of the harness's canonical rendering by apparmor_parser), 500 / 15000 blocks after Merge+Sort+Format and 500 / 15000 profile files: parse(canonical text) must equal the generator's intent field by field, parse(print(r)) must equal r and print again the same text; the same rules are parsed again interleaved with profile-file parses in one process and must give the same result.",
   note="Trusted: the generator's canonical printer (calibrated by the reference parser). Trailing special comments (file_inherit, no new privs, optional:) are not generated.", ref="5 C09"),
 "C11": dict(cat="exploration", tech="algebraic-law monitor on Rule.Compare / Rules.Sort over generated triples, permuted lists and the complete matrix of shipped includes; a slice of the Sort calls in a worker built with the Go race detector",
   text="20000 / 600000 same-kind triples (strata: file rules with known / unknown / mixed prefixes, near-duplicates differing in one letter's case, one byte or one flag) checked for antisymmetry, transitivity and equal-only-if-identical; 2000 / 60000 lists x 8 permutations for idempotent, order-independent Sort; all ~400 shipped abstractions as include rules compared pairwise (complete matrix, consistency with a linear order).",
   note="Trusted: rule identity = canonical text with set-valued fields sorted. Paths containing '=' are outside this domain (finding C09/equals-in-path).", ref="5 C11"),
 "C10": dict(cat="translation_validation", tech="translation validation of Rules.Merge: independent denotation of input and merged list + both texts compiled by the reference parser (bytes, then automata equivalence); a slice of the Merge calls in a worker built with the Go race detector",
   text="3000 / 120000 lists of valid rules (random, one kind, near-duplicates differing in case/one byte/one flag, same subject with different or empty set fields, a signal grid) are merged by the real library in the worker; the atomic (qualifier, subject, permission) facts of input and output must be equal, Merge must be idempotent, and for lists of AppArmor-3 kinds the printed input and output are compiled by apparmor_parser: equal bytes => equal, else equivalence of every dumped automaton plus capability/network/rlimit dump lines; lists with deny rules are compiled a second time under blanket allow rules. Disagreement between the two oracles is inconclusive.",
   note="Trusted: the denotation in vlib/c10.py (empty list = every value of a finite domain); apparmor_parser 3.0.8 compiled output is canonical. programs = lists compiled as pairs, disagreements_checked = pairs settled by automata.", ref="5 C10"),
 "C13": dict(cat="exploration", tech="differential monitor: Parse+Resolve of the real library in CPU/memory-limited worker processes vs apparmor_parser -D expanded-variables on the same generated preamble",
   text="3000 / 100000 generated cycle-free preambles (comments, abi before/after, 1-6 variables, += anywhere after the definition, nested and repeated references, alternations, //) plus error strata (undefined, self-reference, += self-reference, second definition; cycles of length 2-3 one per process): same value sets per variable and attachment as the reference parser, same accept/reject, no panic, no hang, and every comment/abi/include/alias entry and every definition kept.",
   note="Trusted: apparmor_parser's own expansion (variables referenced from a stub profile so that it evaluates them); '//' collapsed on both sides; expansion sizes bounded to 200 values.", ref="5 C13"),
 "C12": dict(cat="translation_validation", tech="translation validation: text printed by the real library vs the harness's canonical rendering of the same fields, both compiled by apparmor_parser (bytes, then automata equivalence)",
   text="Texts printed by the real library for single rules of the 14 AppArmor-3 kinds, blocks after Merge+Sort+Format, rules built from generated log records and the expansions of every distinct shipped dbus/exec directive are (a) shown to apparmor_parser for acceptance and (b) compiled against the harness's own plain rendering of the same rule fields: equal bytes => same meaning, else equivalence of every dumped automaton plus capability/network/rlimit dump lines. A rejection is only excused (out of domain) when the canonical rendering of the same fields is rejected too and the fields were generated, not produced by the tool itself.",
   note="Trusted: the canonical printer in vlib/rulegen.py, apparmor_parser 3.0.8. programs = text pairs judged, disagreements_checked = pairs whose two texts differ beyond white space (decided by compilation).", ref="5 C12"),
 "C14": dict(cat="exploration", tech="offline history checker: uniquely tagged records written to generated log files, the real aa-log binary run in every mode, reported events matched back to input records; journald lines through -f FILE and through a stub journalctl command; a slice of the runs on a binary built with the Go race detector",
   text="300 / 6000 generated log files (audit, syslog and journald JSON framings; records of every class mixed with STATUS records, foreign, blank, garbled and truncated lines, journald binary/boot entries, repeats up to timestamp and pid, ALLOWED/DENIED twins, noise paths, extra keys; at most one hostile trigger per file: 64 KiB+-1 / 1 MiB line, invalid UTF-8, no final newline) x {default, -R, -r} x {no filter, profile, prefix, no match}: every expected record reported exactly once and in input order, nothing else reported, exit status 0, identical bytes on a second run.",
   note="Trusted: the record model (what is a repeat, what is noise: only unmistakable noise paths are generated). Truncated records may or may not be shown.", ref="5 C14"),
 "C15": dict(cat="exploration", tech="field-level monitor on logs.New in the worker: generated kernel-style records (encoder keeps the field values) vs the maps the real library returns",
   text="20000 / 300000 generated records with spaces, '=', '#', ',', UTF-8, tab and backslash in values, kernel hex encoding vs quoting, hex-looking quoted values and shuffled field order, many records per call and several calls per process with malformed records in between: every key of the map returned for a record must carry that record's own value (name/comm/profile decoded to the original bytes), a distinctive path component must survive generalisation, no key may come from another record, and every well-formed record must be found.",
   note="Trusted: the kernel-style encoder in vlib/logsgen.py; profile/name/target may be generalised (whether the result still matches is C16's question).", ref="5 C15"),
 "C16": dict(cat="exploration", tech="coverage monitor: generated records through the real logs.New -> ParseToProfiles -> Merge -> Sort -> Format, emitted path patterns matched against the recorded names by apparmor_parser's own automaton",
   text="8000 / 100000 generated well-formed records of every mapped class (names from home, system, /proc, /sys, /run, udev, pci, uuid/hex/number/arch-bearing and blank-bearing paths; 1-40 records per profile; one-field variants of earlier records) must each be covered by a printed rule of the right kind and qualifier; for file, link and mount-family records the emitted pattern must accept the recorded name: `P r,` and `P r, literal(name) r,` compile to the same bytes over the shipped tunables, a miss is confirmed by simulating the dumped automaton.",
   note="Trusted: apparmor_parser 3.0.8 + the tunables of a real build; peers are matched by a simple glob model.", ref="5 C16"),
}
REASONS = {}
props = [json.loads(l) for l in open(os.path.join(V, "properties.jsonl"))]
checks, na = [], []
for p in props:
    pid = p["id"]
    c = CHECKS.get(pid)
    if c and os.path.exists(os.path.join(V, "vlib", pid.lower() + ".py")):
        checks.append({
            "property_id": pid,
            "quick_cmd": "./check %s quick" % pid,
            "thorough_cmd": "./check %s thorough" % pid,
            "evidence_file": "/verif/evidence/%s.json" % pid,
            "replay_cmd_template": "./check %s --replay {path}" % pid,
            "engine": "vlib",
            "level_claimed": {"category": c["cat"], "text": c["text"], "design_ref": "DESIGN.md section " + c["ref"]},
            "level_note": c["note"],
            "technique": "runtime monitoring: " + c["tech"],
        })
    else:
        na.append({"property_id": pid, "reason": REASONS.get(pid, "check not built yet in this revision (planned: runtime monitor per DESIGN.md section 5)")})
m = {
 "version": 1,
 "setup_cmd": "cd /verif && ./setup.sh",
 "hooks": {
   "guard": "verif",
   "enable": "go build -tags verif (the checks build /repo/cmd/prebuild, /repo/cmd/aa-log and the worker with -tags verif; the tap writes only when VERIF_TAP_DIR is set)",
   "baseline_off_cmd": "cd /repo && GOFLAGS=-mod=mod GOPROXY=off GOSUMDB=off GOTOOLCHAIN=local go test -mod=mod -json -vet=off -count=1 -timeout 25m ./...",
   "source_commits": hook_commits,
   "add_only": True,
 },
 "engines": [
   {"name": "vlib", "path": "/verif/vlib", "serves_properties": [c["property_id"] for c in checks],
    "kind_free_text": "python orchestration of runtime monitors: real prebuild/aa-log binaries and an in-process Go worker (links /repo packages) observed by reference-parser, model and history oracles"},
   {"name": "vworker", "path": "/verif/worker", "serves_properties": [c["property_id"] for c in checks if c["property_id"] in ("C02", "C03", "C05", "C06", "C07", "C09", "C10", "C11", "C12", "C13", "C15", "C16")],
    "kind_free_text": "Go JSON-lines worker calling the exported API of /repo's packages (one child process per batch or per sequence)"},
 ],
 "checks": checks,
 "not_applicable": na,
 "notes": "All checks are runtime monitors over executions of the real code (see DESIGN.md). known_findings.json lists recorded defects; fixed entries document fix: commits in /repo.",
}
json.dump(m, open(os.path.join(V, "MANIFEST.json"), "w"), indent=1)
print("checks", len(checks), "not_applicable", len(na))
