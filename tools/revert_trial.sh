#!/bin/bash
# usage: tools/revert_trial.sh <fix-commit>[,<older-fix-commit>...] <check-id>...   (several commits: newest first, for fixes that touch the same lines)
# Reverts one "fix:" commit on a scratch copy of /repo's HEAD and runs the quick checks against it
# (each reverted fix is a mutant for its property: the check must report the defect again).
C=$1; shift
R=/tmp/mutrepo/revert-${C//,/_}; rm -rf "$R"; mkdir -p "$R"
git -C /repo archive HEAD | tar -x -C "$R" || exit 2
(cd "$R" && git init -q . && for c in ${C//,/ }; do git -C /repo show "$c" | git apply -R || exit 1; done) || { echo "revert of $C does not apply"; rm -rf "$R"; exit 2; }
(cd "$R" && GOFLAGS=-mod=mod GOPROXY=off GOSUMDB=off GOTOOLCHAIN=local go build ./... ) || { echo "revert of $C does not build"; rm -rf "$R"; exit 2; }
trap 'rm -rf "$R"' EXIT
for K in "$@"; do
  out=$(cd /verif && VERIF_REPO=$R VERIF_OUT_DIR=/tmp/mutconf/out/revert-${C//,/_} ./check "$K" quick 2>&1); rc=$?
  echo "REVERT $C ($(git -C /repo log --format=%s -1 ${C##*,} | cut -c1-60)) check $K rc=$rc violation_lines=$(echo "$out" | grep -c '^VIOLATION')"
done
