#!/bin/bash
# Runs the repository's own suite with the verif tag OFF and compares the result
# with the stable_pass list of /root/.vp/BASELINE.json (if present).
# usage: tools/baseline.sh [repo-dir]
export GOFLAGS=-mod=mod GOPROXY=off GOSUMDB=off GOTOOLCHAIN=local
R=${1:-/repo}
out=$(mktemp)
(cd "$R" && go test -mod=mod -json -vet=off -count=1 -timeout 25m ./... >"$out" 2>/dev/null)
(cd "$R" && git checkout -- debian/apparmor.d.hide 2>/dev/null; rm -rf .build)
python3 - "$out" <<'PY'
import json,sys
res={}
for l in open(sys.argv[1]):
    try: e=json.loads(l)
    except Exception: continue
    if e.get('Action') in('pass','fail','skip') and e.get('Test'):
        res[e['Package']+'::'+e['Test']]=e['Action']
try:
    b=json.load(open('/root/.vp/BASELINE.json'))
    stable=b['stable_pass']
except Exception:
    stable=[]
bad=[t for t in stable if res.get(t)!='pass']
print('tests seen',len(res),'passed',sum(1 for v in res.values() if v=='pass'),'stable',len(stable),'stable-not-passing',len(bad))
for t in bad: print('  NOT PASSING:',t,res.get(t))
sys.exit(1 if bad else 0)
PY
rc=$?
rm -f "$out"
exit $rc
