#!/bin/bash
# usage: tools/run_mutant_inplace.sh <seeded-id> <check-id>...   (git -C /repo apply; run; git -C /repo checkout -- .)
ID=$1; shift
P=/verif/seeded/$ID/patch.diff
[ -f "$P" ] || { echo "no $P"; exit 2; }
cd /repo || exit 2
[ -z "$(git status --porcelain)" ] || { echo "/repo not clean"; git status --short | head; exit 2; }
git apply "$P" || { echo "$ID: patch does not apply"; exit 2; }
revert() { git -C /repo checkout -q -- . ; git -C /repo clean -fdq; }
trap revert EXIT
for C in "$@"; do
  out=$(cd /verif && VERIF_OUT_DIR=/tmp/mutconf/out/$ID ./check "$C" ${TIER:-quick} 2>&1); rc=$?
  echo "MUTANT $ID check $C rc=$rc violation_lines=$(echo "$out" | grep -c '^VIOLATION')"
  echo "$out" | grep -A2 '^VIOLATION' | grep -v '^--' | head -${SHOW:-6}
done
