#!/bin/bash
# Offline setup: verifies the tool chain and warms the Go build cache for the worker.
export GOFLAGS=-mod=mod GOPROXY=off GOSUMDB=off GOTOOLCHAIN=local
cd "$(dirname "$0")" || exit 1
command -v go >/dev/null || { echo "go missing"; exit 1; }
[ -x /usr/sbin/apparmor_parser ] || { echo "apparmor_parser missing"; exit 1; }
[ -f worker/go.sum ] || cp /repo/go.sum worker/go.sum
t=$(mktemp -d)
(cd /repo && go build -tags verif -o "$t/" ./cmd/prebuild ./cmd/aa-log) || { rm -rf "$t"; exit 1; }
(cd worker && go build -tags verif -o "$t/vworker" .) || { rm -rf "$t"; exit 1; }
rm -rf "$t"
echo setup ok
