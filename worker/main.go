// vworker: in-process worker linking the packages of /repo's working tree.
// Speaks JSON lines: one request object per input line, one reply per line.
package main

import (
	"bufio"
	"encoding/json"
	"fmt"
	"os"
	"runtime/debug"
)

type handler func(req map[string]any) (any, error)

var handlers = map[string]handler{}

func main() {
	debug.SetMaxStack(256 << 20)
	if len(os.Args) < 2 {
		fmt.Fprintln(os.Stderr, "usage: vworker <op>")
		os.Exit(2)
	}
	h, ok := handlers[os.Args[1]]
	if !ok {
		fmt.Fprintln(os.Stderr, "unknown op", os.Args[1])
		os.Exit(2)
	}
	in := bufio.NewReaderSize(os.Stdin, 1<<20)
	// the library prints diagnostics with fmt.Printf: keep the protocol channel for the replies only
	proto := os.Stdout
	os.Stdout = os.Stderr
	out := bufio.NewWriter(proto)
	defer out.Flush()
	enc := json.NewEncoder(out)
	enc.SetEscapeHTML(false)
	trace := os.Getenv("VWORKER_TRACE")
	var tf *os.File
	if trace != "" {
		tf, _ = os.OpenFile(trace, os.O_CREATE|os.O_WRONLY|os.O_TRUNC, 0o644)
	}
	for {
		line, err := in.ReadBytes('\n')
		if len(line) > 0 {
			var req map[string]any
			if e := json.Unmarshal(line, &req); e != nil {
				_ = enc.Encode(map[string]any{"harness_error": e.Error()})
			} else {
				if tf != nil {
					// the id of the case is on disk before the call is made
					fmt.Fprintf(tf, "%v\n", req["id"])
					_ = tf.Sync()
				}
				res := call(h, req)
				res["id"] = req["id"]
				_ = enc.Encode(res)
				_ = out.Flush()
			}
		}
		if err != nil {
			break
		}
	}
}

func call(h handler, req map[string]any) (res map[string]any) {
	defer func() {
		if r := recover(); r != nil {
			res = map[string]any{"panic": fmt.Sprint(r)}
		}
	}()
	v, err := h(req)
	if err != nil {
		return map[string]any{"error": err.Error()}
	}
	return map[string]any{"ok": v}
}

func str(req map[string]any, k string) string {
	if v, ok := req[k].(string); ok {
		return v
	}
	return ""
}

func num(req map[string]any, k string) float64 {
	if v, ok := req[k].(float64); ok {
		return v
	}
	return 0
}

func strs(req map[string]any, k string) []string {
	var out []string
	if v, ok := req[k].([]any); ok {
		for _, x := range v {
			if s, ok := x.(string); ok {
				out = append(out, s)
			}
		}
	}
	return out
}
