package main

import (
	"encoding/json"
	"fmt"

	"github.com/roddhjav/apparmor.d/pkg/aa"
)

func init() {
	handlers["aa"] = opAA
}

type ruleOut struct {
	Kind   string          `json:"kind"`
	Fields json.RawMessage `json:"fields"`
	Text   string          `json:"text"`
}

func dumpRules(rs aa.Rules) []ruleOut {
	out := []ruleOut{}
	for _, r := range rs {
		if r == nil {
			out = append(out, ruleOut{Kind: "nil"})
			continue
		}
		b, err := json.Marshal(r)
		if err != nil {
			b = []byte(`"unmarshalable"`)
		}
		out = append(out, ruleOut{Kind: r.Kind().String(), Fields: b, Text: r.String()})
	}
	return out
}

func parseFlat(text string) (aa.Rules, error) {
	para, _, err := aa.ParseRules(text)
	if err != nil {
		return nil, err
	}
	return para.Flatten(), nil
}

func sign(i int) int {
	if i < 0 {
		return -1
	}
	if i > 0 {
		return 1
	}
	return 0
}

// opAA: {"do": "rules", "text": ..., "pipeline": ["merge","sort","format"], "validate": bool}
//       {"do": "compare", "rules": [text...]}  -> matrix of Compare signs (same-kind only, else null) + Sort order
//       {"do": "file", "text":..., "defaults": bool, "resolve": bool}
func opAA(req map[string]any) (any, error) {
	switch str(req, "do") {
	case "rules":
		rs, err := parseFlat(str(req, "text"))
		if err != nil {
			return nil, err
		}
		res := map[string]any{"parsed": dumpRules(rs)}
		if v, _ := req["validate"].(bool); v {
			if err := rs.Validate(); err != nil {
				res["validate_error"] = err.Error()
			}
		}
		stages := []map[string]any{}
		wantStages, _ := req["stages"].(bool)
		for _, step := range strs(req, "pipeline") {
			switch step {
			case "merge":
				rs = rs.Merge()
			case "sort":
				rs = rs.Sort()
			case "format":
				rs = rs.Format()
			}
			if wantStages {
				stages = append(stages, map[string]any{"step": step, "rules": dumpRules(rs), "text": rs.String()})
			}
		}
		if wantStages {
			res["stages"] = stages
		}
		res["rules"] = dumpRules(rs)
		res["text"] = rs.String()
		return res, nil
	case "compare":
		texts := strs(req, "rules")
		var all aa.Rules
		for _, t := range texts {
			rs, err := parseFlat(t)
			if err != nil {
				return nil, err
			}
			if len(rs) != 1 {
				return nil, fmt.Errorf("expected one rule in %q, got %d", t, len(rs))
			}
			all = append(all, rs[0])
		}
		n := len(all)
		m := make([][]any, n)
		for i := 0; i < n; i++ {
			m[i] = make([]any, n)
			for j := 0; j < n; j++ {
				if all[i].Kind() == all[j].Kind() {
					m[i][j] = sign(all[i].Compare(all[j]))
				} else {
					m[i][j] = nil
				}
			}
		}
		kinds := []string{}
		for _, r := range all {
			kinds = append(kinds, r.Kind().String())
		}
		return map[string]any{"matrix": m, "kinds": kinds}, nil
	case "sortlist":
		// several permutations of the same rule texts: returns the rendered sorted list for each
		perms, _ := req["perms"].([]any)
		outs := []string{}
		twice := []string{}
		for _, p := range perms {
			var all aa.Rules
			for _, x := range p.([]any) {
				rs, err := parseFlat(x.(string))
				if err != nil {
					return nil, err
				}
				all = append(all, rs...)
			}
			s1 := all.Sort()
			outs = append(outs, s1.String())
			s2 := s1.Sort()
			twice = append(twice, s2.String())
		}
		return map[string]any{"sorted": outs, "sorted_twice": twice}, nil
	case "file":
		f := &aa.AppArmorProfileFile{}
		if v, _ := req["defaults"].(bool); v {
			f = aa.DefaultTunables()
		}
		nb, err := f.Parse(str(req, "text"))
		if err != nil {
			return nil, err
		}
		res := map[string]any{"nb": nb}
		if v, _ := req["resolve"].(bool); v {
			if err := f.Resolve(); err != nil {
				res["resolve_error"] = err.Error()
				return res, nil
			}
		}
		res["preamble"] = dumpRules(f.Preamble)
		profs := []map[string]any{}
		for _, p := range f.Profiles {
			b, _ := json.Marshal(p.Header)
			profs = append(profs, map[string]any{"header": json.RawMessage(b), "attachment": p.GetAttachments()})
		}
		res["profiles"] = profs
		res["text"] = f.String()
		return res, nil
	}
	return nil, fmt.Errorf("unknown do")
}
