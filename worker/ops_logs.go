package main

import (
	"fmt"
	"sort"
	"strings"

	"github.com/roddhjav/apparmor.d/pkg/logs"
	"github.com/roddhjav/apparmor.d/pkg/util"
)

func init() {
	handlers["logs"] = opLogs
}

// opLogs: {"do": "new", "text": log file content, "profile": filter, "rules": bool}
func opLogs(req map[string]any) (any, error) {
	switch str(req, "do") {
	case "new":
		l := logs.New(strings.NewReader(str(req, "text")), str(req, "profile"))
		out := []map[string]string{}
		for _, e := range l {
			out = append(out, map[string]string(e))
		}
		res := map[string]any{"logs": out}
		if v, _ := req["rules"].(bool); v {
			profs := l.ParseToProfiles()
			names := []string{}
			for n := range profs {
				names = append(names, n)
			}
			sort.Strings(names)
			texts := map[string]string{}
			rules := map[string]any{}
			for _, n := range names {
				p := profs[n]
				p.Merge(nil)
				p.Sort()
				p.Format()
				texts[n] = p.String()
				rules[n] = dumpRules(p.Rules)
			}
			res["profiles"] = texts
			res["rules"] = rules
		}
		return res, nil
	case "raw":
		return logs.GetApparmorLogs(strings.NewReader(str(req, "text")), str(req, "profile")), nil
	case "hex":
		return util.DecodeHexInString(str(req, "text")), nil
	}
	return nil, fmt.Errorf("unknown do")
}
