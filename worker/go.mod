module verifworker

go 1.23.0

require github.com/roddhjav/apparmor.d v0.0.0

replace github.com/roddhjav/apparmor.d => /repo
