package main

import (
	"fmt"
	"math/rand"
	"strings"

	"github.com/roddhjav/apparmor.d/pkg/prebuild"
	"github.com/roddhjav/apparmor.d/pkg/prebuild/directive"
)

// verifrand is a deliberately non-deterministic directive, registered in the worker
// only, used by the C02 monitor to prove that it can see non-determinism.
type verifRand struct {
	prebuild.Base
}

func init() {
	directive.RegisterDirective(&verifRand{Base: prebuild.Base{Keyword: "verifrand", Msg: "self-test"}})
}

func (d verifRand) Apply(opt *directive.Option, profile string) (string, error) {
	return strings.ReplaceAll(profile, opt.Raw, fmt.Sprintf("  # %d", rand.Int63())), nil
}
