package main

import (
	"crypto/sha256"
	"fmt"

	"github.com/roddhjav/apparmor.d/pkg/paths"
	"github.com/roddhjav/apparmor.d/pkg/prebuild"
	"github.com/roddhjav/apparmor.d/pkg/prebuild/builder"
	"github.com/roddhjav/apparmor.d/pkg/prebuild/directive"
)

func init() {
	handlers["prebuild"] = opPrebuild
}

var registered = false

// setTarget applies the per-request build target. Distribution and Family are
// derived by the project's own init code from the DISTRIBUTION environment variable.
func setTarget(req map[string]any) {
	if root := str(req, "root"); root != "" {
		prebuild.Root = paths.New(root)
		prebuild.RootApparmord = prebuild.Root.Join("apparmor.d")
	}
	if v, ok := req["abi"]; ok {
		prebuild.ABI = int(v.(float64))
	}
	if v, ok := req["version"]; ok {
		prebuild.Version = v.(float64)
	}
}

// opPrebuild: {"do": "directive"|"builder"|"register"|"info", ...}
func opPrebuild(req map[string]any) (any, error) {
	setTarget(req)
	switch str(req, "do") {
	case "info":
		return map[string]any{"distribution": prebuild.Distribution, "family": prebuild.Family,
			"abi": prebuild.ABI, "version": prebuild.Version}, nil
	case "register":
		if !registered {
			builder.Register(strs(req, "builders")...)
			registered = true
		}
		names := []string{}
		for _, b := range builder.Builds {
			names = append(names, b.Name())
		}
		return names, nil
	case "builder":
		file := paths.New(str(req, "file"))
		out, err := builder.Run(file, str(req, "text"))
		if err != nil {
			return nil, err
		}
		return out, nil
	case "directive":
		file := paths.New(str(req, "file"))
		n := int(num(req, "repeat"))
		if n < 1 {
			n = 1
		}
		outs := []string{}
		seen := map[[32]byte]bool{}
		for i := 0; i < n; i++ {
			out, err := directive.Run(file, str(req, "text"))
			if err != nil {
				return nil, err
			}
			h := sha256.Sum256([]byte(out))
			if !seen[h] {
				seen[h] = true
				outs = append(outs, out)
			}
		}
		return map[string]any{"outs": outs, "runs": n}, nil
	}
	return nil, fmt.Errorf("unknown do")
}
